(* UnifyProofs.v — C09: in the general case of unification the result is one of the given types, and for every input
   the returned entry is either "no conversion needed" (the input is the chosen one or of the result type) or exactly
   the conversion the lookup found from that input type to the result type (all type lists, both modes, any lookup). *)
From Coq Require Import Lia.
From Cty Require Import Base Ty BigFloat Value Hash Ops Refine Convert DecodeProofs.
Open Scope Z_scope.

Definition conv_entry_ok (r : cfns) (unsafe : bool) (w : nat) (want : ty) (i : nat) (t : ty) (c : option conv) : Prop :=
  match c with
  | None => i = w \/ ty_equals t want = true
  | Some f => c_get r t want unsafe = Ok (Some f)
  end.

Lemma convs_to_sound r unsafe w want : forall l i cs,
  (fix go (i : nat) (l : list ty) : res (option (list (option conv))) :=
     match l with
     | [] => Ok (Some [])
     | t :: l' =>
         if Nat.eqb i w || ty_equals t want then
           do x <- go (S i) l'; Ok (match x with Some m => Some (None :: m) | None => None end)
         else
           do c <- c_get r t want unsafe;
           match c with
           | None => Ok None
           | Some f => do x <- go (S i) l'; Ok (match x with Some m => Some (Some f :: m) | None => None end)
           end
     end) i l = Ok (Some cs) ->
  length cs = length l /\
  forall k t, nth_error l k = Some t -> exists c, nth_error cs k = Some c /\ conv_entry_ok r unsafe w want (i + k) t c.
Proof.
  induction l as [|t l IH]; intros i cs H.
  - injection H as <-. split; [reflexivity|]. intros [|k] t0 Hk; discriminate.
  - destruct (Nat.eqb i w || ty_equals t want) eqn:E.
    + apply bind_ok_inv in H as (x & Hx & H). destruct x as [m|]; [|discriminate]. injection H as <-.
      destruct (IH _ _ Hx) as [L N]. split; [cbn; lia|].
      intros [|k] t0 Hk.
      * injection Hk as <-. exists None. split; [reflexivity|]. cbn. rewrite Nat.add_0_r.
        apply Bool.orb_true_iff in E as [E|E]; [left; apply Nat.eqb_eq; exact E|right; exact E].
      * destruct (N k t0 Hk) as (c & Hc & Ok'). exists c. split; [exact Hc|]. replace (i + S k)%nat with (S i + k)%nat by lia. exact Ok'.
    + apply bind_ok_inv in H as (c0 & Hc0 & H). destruct c0 as [f|]; [|discriminate].
      apply bind_ok_inv in H as (x & Hx & H). destruct x as [m|]; [|discriminate]. injection H as <-.
      destruct (IH _ _ Hx) as [L N]. split; [cbn; lia|].
      intros [|k] t0 Hk.
      * injection Hk as <-. exists (Some f). split; [reflexivity|]. exact Hc0.
      * destruct (N k t0 Hk) as (c & Hc & Ok'). exists c. split; [exact Hc|]. replace (i + S k)%nat with (S i + k)%nat by lia. exact Ok'.
Qed.

Theorem unify_generic_sound r tys unsafe want cs :
  unify_generic r tys unsafe = Ok (Some (want, cs)) ->
  exists w, want = nth w tys TDyn /\ length cs = length tys /\
            forall k t, nth_error tys k = Some t -> exists c, nth_error cs k = Some c /\ conv_entry_ok r unsafe w want k t c.
Proof.
  unfold unify_generic. generalize (sort_types tys). induction l as [|w p IH]; [discriminate|].
  intros H. apply bind_ok_inv in H as (x & Hx & H). destruct x as [l0|]; [|exact (IH H)].
  injection H as <- <-. exists w. split; [reflexivity|].
  unfold unify_convs_to in Hx. destruct (convs_to_sound r unsafe w (nth w tys TDyn) tys 0%nat l0 Hx) as [L N].
  split; [exact L|]. exact N.
Qed.
