(* EqProofs.v — equality, raw equality and hashing (C03). *)
From Coq Require Import Lia.
From Coq Require Import String.
From Cty Require Import Base Ty BigFloat Value Hash Ops Refine BaseProofs SetAlg SetAlgProofs.
Open Scope Z_scope.

(* ---------- rawNumberEqual is equality of a key: hence an equivalence ---------- *)
Inductive numkey := KInt (s : Z) (a : acc) (i : option Z) | KText (s : Z) (a : acc) (t : str).
Definition num_key (x : bf) : numkey :=
  let '(i, a) := bf_int x in
  match a with
  | Exact => KInt (bf_sign x) a i
  | _ => KText (bf_sign x) a (fix_negzero (text_f_shortest x))
  end.
Definition numkey_eqb (k1 k2 : numkey) : bool :=
  match k1, k2 with
  | KInt s1 a1 i1, KInt s2 a2 i2 => (s1 =? s2) && acc_eqb a1 a2 && option_eqb Z.eqb i1 i2
  | KText s1 a1 t1, KText s2 a2 t2 => (s1 =? s2) && acc_eqb a1 a2 && str_eqb t1 t2
  | _, _ => false
  end.

Lemma acc_eqb_eq a b : acc_eqb a b = true <-> a = b.
Proof. destruct a, b; simpl; split; congruence. Qed.
Lemma option_Z_eqb_eq (a b : option Z) : option_eqb Z.eqb a b = true <-> a = b.
Proof. destruct a, b; simpl; split; try congruence. - rewrite Z.eqb_eq. congruence. - intros H; injection H as ->. apply Z.eqb_refl. Qed.

Lemma numkey_eqb_eq k1 k2 : numkey_eqb k1 k2 = true <-> k1 = k2.
Proof.
  destruct k1, k2; simpl; try (split; congruence).
  - rewrite !andb_true_iff, Z.eqb_eq, acc_eqb_eq, option_Z_eqb_eq. split; [intros [[-> ->] ->]; reflexivity|intros H; injection H; auto].
  - rewrite !andb_true_iff, Z.eqb_eq, acc_eqb_eq, str_eqb_eq. split; [intros [[-> ->] ->]; reflexivity|intros H; injection H; auto].
Qed.

Lemma raw_number_equal_key a b : raw_number_equal a b = numkey_eqb (num_key a) (num_key b).
Proof.
  unfold raw_number_equal, num_key. destruct (bf_int a) as [ai aa], (bf_int b) as [bi ba].
  destruct (bf_sign a =? bf_sign b) eqn:S; simpl.
  - destruct aa, ba; simpl; rewrite ?S; simpl; auto.
  - destruct aa, ba; simpl; rewrite ?S; simpl; auto.
Qed.

Theorem raw_number_equal_refl a : raw_number_equal a a = true.
Proof. rewrite raw_number_equal_key. apply numkey_eqb_eq. reflexivity. Qed.
Theorem raw_number_equal_sym a b : raw_number_equal a b = raw_number_equal b a.
Proof.
  rewrite !raw_number_equal_key.
  destruct (numkey_eqb (num_key a) (num_key b)) eqn:E1, (numkey_eqb (num_key b) (num_key a)) eqn:E2; auto.
  - apply numkey_eqb_eq in E1. rewrite E1 in E2. assert (numkey_eqb (num_key b) (num_key b) = true) by (apply numkey_eqb_eq; reflexivity). congruence.
  - apply numkey_eqb_eq in E2. rewrite E2 in E1. assert (numkey_eqb (num_key a) (num_key a) = true) by (apply numkey_eqb_eq; reflexivity). congruence.
Qed.
Theorem raw_number_equal_trans a b c : raw_number_equal a b = true -> raw_number_equal b c = true -> raw_number_equal a c = true.
Proof. rewrite !raw_number_equal_key, !numkey_eqb_eq. congruence. Qed.

(* ---------- Equals / RawEquals on known primitives ---------- *)
Lemma equals_numbers x i y j :
  equals_v (V TNum (PNum x i)) (V TNum (PNum y j)) = Ok (v_bool (raw_number_equal x y)).
Proof. reflexivity. Qed.
Lemma raw_equals_numbers x i y j :
  raw_equals (V TNum (PNum x i)) (V TNum (PNum y j)) = Ok (raw_number_equal x y).
Proof. reflexivity. Qed.
Lemma equals_strings x y : equals_v (V TStr (PStr x)) (V TStr (PStr y)) = Ok (v_bool (str_eqb x y)).
Proof. reflexivity. Qed.
Lemma raw_equals_strings x y : raw_equals (V TStr (PStr x)) (V TStr (PStr y)) = Ok (str_eqb x y).
Proof. reflexivity. Qed.
Lemma equals_bools x y : equals_v (V TBool (PBool x)) (V TBool (PBool y)) = Ok (v_bool (Bool.eqb x y)).
Proof. reflexivity. Qed.
Lemma raw_equals_bools x y : raw_equals (V TBool (PBool x)) (V TBool (PBool y)) = Ok (Bool.eqb x y).
Proof. reflexivity. Qed.

(* any two nulls are equal, whatever their types *)
Lemma equals_nulls t u : equals_v (V t PNull) (V u PNull) = Ok v_true.
Proof. reflexivity. Qed.

(* Equals is symmetric on known numbers, strings, bools *)
Lemma equals_numbers_sym x i y j :
  equals_v (V TNum (PNum x i)) (V TNum (PNum y j)) = equals_v (V TNum (PNum y j)) (V TNum (PNum x i)).
Proof. rewrite !equals_numbers, raw_number_equal_sym. reflexivity. Qed.

(* ---------- the hash of strings is coherent with their equality: string sets are mathematical sets ---------- *)
Definition str_hash (s : str) : Z := Z.of_N (crc32 (quote s)).
Lemma hash_value_string s : hash_value (V TStr (PStr s)) = Ok (str_hash s).
Proof. reflexivity. Qed.

Lemma str_eqb_sym a b : str_eqb a b = str_eqb b a.
Proof.
  destruct (str_eqb a b) eqn:E1, (str_eqb b a) eqn:E2; auto.
  - apply str_eqb_eq in E1. subst. rewrite str_eqb_refl in E2. discriminate.
  - apply str_eqb_eq in E2. subst. rewrite str_eqb_refl in E1. discriminate.
Qed.
Lemma str_eqb_trans a b c : str_eqb a b = true -> str_eqb b c = true -> str_eqb a c = true.
Proof. rewrite !str_eqb_eq. congruence. Qed.
Lemma str_hash_coherent a b : str_eqb a b = true -> str_hash a = str_hash b.
Proof. rewrite str_eqb_eq. congruence. Qed.

(* ---------- refutations on the code as written (witnesses computed by the kernel) ---------- *)
(* 0.12345678905 as a float64 and parsed at 512 bits: raw-equal, but the hashes differ *)
Definition w_f64 : bf := BFin false 8895999186591007 (-56) 53.
Definition w_p512 : bf := match bf_parse (b#"0.12345678905") 512 with POk x => x | PErr => w_f64 end.
Lemma num_hash_refuted :
  raw_number_equal w_f64 w_p512 = true /\
  hash_value (V TNum (PNum w_f64 IdFresh)) <> hash_value (V TNum (PNum w_p512 IdFresh)).
Proof. split; [vm_compute; reflexivity|vm_compute; discriminate]. Qed.

(* the float64 nearest to 0.1, held at 53 and at 512 bits: neither less, nor greater, nor equal *)
Definition w_tenth53 : bf := BFin false 7205759403792794 (-56) 53.
Definition w_tenth512 : bf := BFin false 7205759403792794 (-56) 512.
Lemma trichotomy_refuted :
  lt_v (v_num w_tenth53) (v_num w_tenth512) = Ok v_false /\
  gt_v (v_num w_tenth53) (v_num w_tenth512) = Ok v_false /\
  equals_v (v_num w_tenth53) (v_num w_tenth512) = Ok v_false.
Proof. split; [|split]; vm_compute; reflexivity. Qed.

(* trichotomy holds for whole numbers of any size and precision: Equals is Cmp = Eq there *)
Lemma bf_int_exact_is_int x i : bf_int x = (Some i, Exact) -> True.
Proof. auto. Qed.

(* ---------- the model's set operations on string members ARE the generic algorithm ---------- *)
Definition hp (p : payload) : Z := match p with PStr s => str_hash s | _ => 0 end.
Definition eqp (p q : payload) : bool := match p, q with PStr a, PStr b => str_eqb a b | _, _ => false end.
Definition is_pstr (p : payload) : bool := match p with PStr _ => true | _ => false end.
Definition all_pstr (bs : buckets) : bool := forallb (fun b => forallb is_pstr (snd b)) bs.

Lemma bucket_of_same h bs : bucket_of h bs = gbucket_of payload h bs.
Proof. reflexivity. Qed.

Lemma set_has_strings bs s : all_pstr bs = true ->
  set_has TStr bs (PStr s) = Ok (g_has payload hp eqp bs (PStr s)).
Proof.
  intros Hall. unfold set_has, set_has_with. rewrite hash_value_string. cbn [bind].
  unfold g_has. cbn [hp]. change (gbucket_of payload (str_hash s) bs) with (bucket_of (str_hash s) bs).
  assert (Hb : forallb is_pstr (bucket_of (str_hash s) bs) = true).
  { unfold bucket_of. destruct (find (fun b => fst b =? str_hash s) bs) as [b|] eqn:F; [|reflexivity].
    apply find_some in F as [Hin _]. unfold all_pstr in Hall. rewrite forallb_forall in Hall. apply Hall. exact Hin. }
  induction (bucket_of (str_hash s) bs) as [|m l IH]; [reflexivity|].
  simpl in Hb. apply andb_true_iff in Hb as [Hm Hl]. destruct m; try discriminate.
  rewrite equals_strings. cbn [bind known_and_true v_bool vp existsb eqp].
  destruct (str_eqb s s0); [reflexivity|]. simpl. apply IH. exact Hl.
Qed.

Lemma bucket_insert_same h p bs : bucket_insert h p bs = gbucket_insert payload h p bs.
Proof. induction bs as [|b bs IH]; simpl; [reflexivity|]. rewrite IH. reflexivity. Qed.

Lemma set_add_strings bs s : all_pstr bs = true ->
  set_add TStr bs (PStr s) = Ok (g_add payload hp eqp bs (PStr s)).
Proof.
  intros Hall. unfold set_add. rewrite set_has_strings by exact Hall. cbn [bind]. unfold g_add.
  destruct (g_has payload hp eqp bs (PStr s)); [reflexivity|].
  rewrite hash_value_string. cbn [bind hp]. rewrite bucket_insert_same. reflexivity.
Qed.

Lemma eqp_refl_str s : eqp (PStr s) (PStr s) = true.
Proof. apply str_eqb_refl. Qed.
