(* TyProofs.v — lemmas about the type model (Model/Ty.v) *)
From Coq Require Import Lia.
From Cty Require Import Base Ty BaseProofs.

Section ty_ind2.
  Variable P : ty -> Prop.
  Hypothesis Hdyn : P TDyn. Hypothesis Hbool : P TBool. Hypothesis Hnum : P TNum. Hypothesis Hstr : P TStr.
  Hypothesis Hlist : forall e, P e -> P (TList e).
  Hypothesis Hset : forall e, P e -> P (TSet e).
  Hypothesis Hmap : forall e, P e -> P (TMap e).
  Hypothesis Htuple : forall es, Forall P es -> P (TTuple es).
  Hypothesis Hobj : forall attrs opt, Forall (fun kv => P (snd kv)) attrs -> P (TObj attrs opt).
  Hypothesis Hcap : forall id, P (TCap id).
  Fixpoint ty_ind2 (t : ty) : P t :=
    match t with
    | TDyn => Hdyn | TBool => Hbool | TNum => Hnum | TStr => Hstr
    | TList e => Hlist e (ty_ind2 e) | TSet e => Hset e (ty_ind2 e) | TMap e => Hmap e (ty_ind2 e)
    | TTuple es => Htuple es ((fix go (l : list ty) : Forall P l :=
                                 match l with [] => Forall_nil _ | x :: l' => Forall_cons _ (ty_ind2 x) (go l') end) es)
    | TObj attrs opt => Hobj attrs opt ((fix go (l : list (str * ty)) : Forall (fun kv => P (snd kv)) l :=
                                 match l with [] => Forall_nil _ | x :: l' => Forall_cons _ (ty_ind2 (snd x)) (go l') end) attrs)
    | TCap id => Hcap id
    end.
End ty_ind2.

(* unfolding helpers for the inner fixpoints *)
Definition tuple_go (f : ty -> ty -> bool) :=
  fix go (l1 l2 : list ty) : bool :=
    match l1, l2 with
    | x :: l1', y :: l2' => f x y && go l1' l2'
    | _, _ => true
    end.
Definition obj_go (f : ty -> ty -> bool) (a2 : list (str * ty)) (o1 o2 : list str) :=
  fix go (l : list (str * ty)) : bool :=
    match l with
    | [] => true
    | kv :: l' =>
        match lookup (fst kv) a2 with
        | None => false
        | Some tb => f (snd kv) tb && Bool.eqb (mem (fst kv) o1) (mem (fst kv) o2) && go l'
        end
    end.
Definition wf_go := fix go (l : list (str * ty)) : bool :=
         match l with [] => true | kv :: l' => wf_ty (snd kv) && go l' end.

Lemma ty_equals_tuple as_ bs : ty_equals (TTuple as_) (TTuple bs) =
  Nat.eqb (length as_) (length bs) && tuple_go ty_equals as_ bs.
Proof. reflexivity. Qed.
Lemma ty_equals_obj a1 o1 a2 o2 : ty_equals (TObj a1 o1) (TObj a2 o2) =
  Nat.eqb (length a1) (length a2) && obj_go ty_equals a2 o1 o2 a1.
Proof. reflexivity. Qed.
Lemma wf_ty_obj attrs opt : wf_ty (TObj attrs opt) =
  sorted_keys (map fst attrs) && sorted_keys opt && forallb (fun k => mem k (map fst attrs)) opt && wf_go attrs.
Proof. reflexivity. Qed.

Lemma wf_go_Forall l : wf_go l = true <-> Forall (fun kv => wf_ty (snd kv) = true) l.
Proof.
  induction l as [|kv l IH]; simpl; split; auto.
  - rewrite andb_true_iff. intros [H1 H2]. constructor; auto. apply IH; auto.
  - intros H. inversion H; subst. rewrite andb_true_iff. split; auto. apply IH; auto.
Qed.

Lemma obj_go_spec f a2 o1 o2 l :
  obj_go f a2 o1 o2 l = true <->
  Forall (fun kv => exists tb, lookup (fst kv) a2 = Some tb /\ f (snd kv) tb = true /\
                               mem (fst kv) o1 = mem (fst kv) o2) l.
Proof.
  induction l as [|kv l IH]; simpl; split; auto.
  - destruct (lookup (fst kv) a2) as [tb|] eqn:E; [|discriminate].
    rewrite !andb_true_iff. intros [[H1 H2] H3]. constructor.
    + exists tb. repeat split; auto. apply eqb_prop; auto.
    + apply IH; auto.
  - intros H. inversion H as [|? ? (tb & E & H1 & H2) H3]; subst.
    rewrite E, !andb_true_iff. repeat split; auto.
    + rewrite H2. apply eqb_reflx.
    + apply IH; auto.
Qed.

Lemma tuple_go_spec f l1 l2 : length l1 = length l2 ->
  (tuple_go f l1 l2 = true <-> Forall2 (fun x y => f x y = true) l1 l2).
Proof.
  revert l2; induction l1 as [|x l1 IH]; intros [|y l2] L; simpl in L; try discriminate.
  - simpl. split; auto.
  - injection L as L. simpl. rewrite andb_true_iff, (IH l2 L). split.
    + intros [A B]; constructor; auto.
    + intros F; inversion F; subst; auto.
Qed.

Lemma Forall2_eq_of_IH (es bs : list ty) :
  Forall (fun t => forall u, wf_ty t = true -> wf_ty u = true -> (ty_equals t u = true <-> t = u)) es ->
  forallb wf_ty es = true -> forallb wf_ty bs = true ->
  (Forall2 (fun x y => ty_equals x y = true) es bs <-> es = bs).
Proof.
  intros H. revert bs. induction H as [|a es Ha Hes IH]; intros bs W1 W2.
  - split; [intros F; inversion F; auto | intros <-; constructor].
  - simpl in W1. apply andb_true_iff in W1 as [Wa Wes]. split.
    + intros F. inversion F as [|? b ? bs' E F']; subst. simpl in W2. apply andb_true_iff in W2 as [Wb Wbs].
      apply (Ha b Wa Wb) in E. subst. f_equal. apply IH; auto.
    + intros <-. constructor.
      * apply Ha; auto.
      * apply IH; auto.
Qed.

Theorem ty_equals_iff_eq : forall t u, wf_ty t = true -> wf_ty u = true -> (ty_equals t u = true <-> t = u).
Proof.
  induction t using ty_ind2; intros u Wt Wu.
  1-4: destruct u; simpl; split; congruence.
  1-3: destruct u; simpl in *; try (split; congruence);
       rewrite (IHt u Wt Wu); split; congruence.
  - (* tuple *)
    destruct u as [| | | | | | |bs| |]; try (simpl; split; congruence).
    rewrite ty_equals_tuple. simpl in Wt, Wu.
    split.
    + rewrite andb_true_iff, Nat.eqb_eq. intros [L G].
      apply tuple_go_spec in G; auto. apply Forall2_eq_of_IH in G; auto. congruence.
    + intros E. injection E as <-. rewrite andb_true_iff, Nat.eqb_eq. split; auto.
      apply tuple_go_spec; auto. apply Forall2_eq_of_IH; auto.
  - (* object *)
    destruct u as [| | | | | | | |a2 o2|]; try (simpl; split; congruence).
    rewrite ty_equals_obj. rewrite wf_ty_obj in Wt, Wu.
    apply andb_true_iff in Wt as [Wt Wg1]. apply andb_true_iff in Wt as [Wt Wo1].
    apply andb_true_iff in Wt as [Sk1 So1].
    apply andb_true_iff in Wu as [Wu Wg2]. apply andb_true_iff in Wu as [Wu Wo2].
    apply andb_true_iff in Wu as [Sk2 So2].
    apply wf_go_Forall in Wg1. apply wf_go_Forall in Wg2.
    rewrite andb_true_iff, obj_go_spec, Nat.eqb_eq.
    split.
    + intros [L G].
      (* every pair of attrs is a pair of a2 *)
      assert (I : forall kv, In kv attrs -> In kv a2).
      { intros kv Hin. rewrite Forall_forall in G, H, Wg1, Wg2.
        destruct (G kv Hin) as (tb & E & F & _).
        apply lookup_In in E.
        assert (snd kv = tb).
        { apply (H kv Hin tb); auto. apply (Wg2 _ E). }
        subst. destruct kv; auto. }
      assert (K : map fst attrs = map fst a2).
      { apply sorted_incl_eq; auto.
        - rewrite !map_length; auto.
        - intros k Hk. apply in_map_iff in Hk as (kv & <- & Hin). apply in_map; auto. }
      assert (A : attrs = a2) by (apply pairs_eq_of_keys; auto; rewrite <- K; apply sorted_NoDup; auto).
      subst a2. f_equal.
      apply sorted_ext_eq; auto. intros k.
      rewrite forallb_forall in Wo1, Wo2. rewrite Forall_forall in G.
      split; intros Hk.
      * pose proof (Wo1 k Hk) as Hm. apply mem_In in Hm. apply in_map_iff in Hm as (kv & <- & Hin).
        destruct (G kv Hin) as (_ & _ & _ & M). apply mem_In. rewrite <- M. apply mem_In; auto.
      * pose proof (Wo2 k Hk) as Hm. apply mem_In in Hm. apply in_map_iff in Hm as (kv & <- & Hin).
        destruct (G kv Hin) as (_ & _ & _ & M). apply mem_In. rewrite M. apply mem_In; auto.
    + intros E. injection E as <- <-. split; auto.
      rewrite Forall_forall in *. intros kv Hin. exists (snd kv). repeat split.
      * apply lookup_sorted_self; auto. apply sorted_NoDup; auto.
      * apply (H kv Hin (snd kv)); auto.
  - destruct u; simpl; try (split; congruence). rewrite N.eqb_eq. split; congruence.
Qed.

(* specification: equal after dropping optional marks and replacing each TDyn of the constraint *)
Inductive Conf : ty -> ty -> Prop :=
| CDyn t : Conf t TDyn
| CBool : Conf TBool TBool | CNum : Conf TNum TNum | CStr : Conf TStr TStr
| CList a b : Conf a b -> Conf (TList a) (TList b)
| CSet a b : Conf a b -> Conf (TSet a) (TSet b)
| CMap a b : Conf a b -> Conf (TMap a) (TMap b)
| CTuple l1 l2 : Forall2 Conf l1 l2 -> Conf (TTuple l1) (TTuple l2)
| CObj a1 o1 a2 o2 : Forall2 (fun x y => fst x = fst y /\ Conf (snd x) (snd y)) a1 a2 -> Conf (TObj a1 o1) (TObj a2 o2)
| CCap i : Conf (TCap i) (TCap i).

Lemma Conf_refl : forall t, Conf t t.
Proof.
  induction t using ty_ind2; try constructor; auto.
  - induction H; constructor; auto.
  - induction H; constructor; auto.
Qed.

Inductive Occurs : ty -> Prop :=
| ODyn : Occurs TDyn
| OList e : Occurs e -> Occurs (TList e)
| OSet e : Occurs e -> Occurs (TSet e)
| OMap e : Occurs e -> Occurs (TMap e)
| OTuple es : Exists Occurs es -> Occurs (TTuple es)
| OObj attrs opt : Exists (fun kv => Occurs (snd kv)) attrs -> Occurs (TObj attrs opt).

Theorem has_dyn_iff : forall t, has_dyn t = true <-> Occurs t.
Proof.
  induction t using ty_ind2; simpl; try (split; [discriminate | intros X; inversion X]).
  - split; auto using ODyn.
  - rewrite IHt; split; [constructor; auto | intros X; inversion X; auto].
  - rewrite IHt; split; [constructor; auto | intros X; inversion X; auto].
  - rewrite IHt; split; [constructor; auto | intros X; inversion X; auto].
  - split.
    + intros E. constructor. induction H as [|a es Ha Hes IH]; simpl in E; [discriminate|].
      apply orb_true_iff in E as [E|E]; [left; apply Ha; auto | right; auto].
    + intros X; inversion X as [| | | |? Ex|]; subst. clear X.
      induction H as [|a es Ha Hes IH]; [inversion Ex|].
      simpl. apply orb_true_iff. inversion Ex; subst; [left; apply Ha; auto | right; auto].
  - split.
    + intros E. constructor. induction H as [|a es Ha Hes IH]; simpl in E; [discriminate|].
      apply orb_true_iff in E as [E|E]; [left; apply Ha; auto | right; auto].
    + intros X; inversion X as [| | | | |? ? Ex]; subst. clear X.
      induction H as [|a es Ha Hes IH]; [inversion Ex|].
      simpl. apply orb_true_iff. inversion Ex; subst; [left; apply Ha; auto | right; auto].
Qed.

Theorem strip_idem : forall t, strip_opt (strip_opt t) = strip_opt t.
Proof.
  induction t using ty_ind2; simpl; try congruence.
  - f_equal. induction H; simpl; auto. f_equal; auto.
  - f_equal. induction H; simpl; auto. f_equal; auto. f_equal; auto.
Qed.

(* ---------- conformance characterisation ---------- *)
Definition conf_tuple_go (f : ty -> ty -> list cerr) :=
  fix go (w g : list ty) {struct w} : list cerr :=
    match w, g with
    | y :: w', x :: g' => f x y ++ go w' g'
    | _, _ => []
    end.
Definition conf_obj_go (f : ty -> ty -> list cerr) (ga : list (str * ty)) :=
  fix go (l : list (str * ty)) : list cerr :=
    match l with
    | [] => []
    | kv :: l' => match lookup (fst kv) ga with
                  | Some gt => f gt (snd kv) ++ go l'
                  | None => go l'
                  end
    end.

Definition conf_body (given want : ty) : list cerr :=
  match given, want with
  | TObj ga _, TObj wa _ =>
      map (fun _ => EUnsupportedAttr) (filter (fun k => negb (mem k (keys wa))) (keys ga)) ++
      map (fun _ => EMissingAttr) (filter (fun k => negb (mem k (keys ga))) (keys wa)) ++
      conf_obj_go conformance ga wa
  | TTuple ge, TTuple we =>
      if Nat.eqb (length ge) (length we) then conf_tuple_go conformance we ge else [ETupleLen]
  | TList g, TList w => conformance g w
  | TSet g, TSet w => conformance g w
  | TMap g, TMap w => conformance g w
  | _, _ => [EMismatch]
  end.

Lemma conformance_unfold given want :
  conformance given want =
  match want with
  | TDyn => []
  | _ => if ty_equals given want then [] else conf_body given want
  end.
Proof. destruct want; try reflexivity; destruct given; reflexivity. Qed.

Lemma map_const_nil {A B} (c : B) (l : list A) : map (fun _ => c) l = [] <-> l = [].
Proof. destruct l; simpl; split; congruence. Qed.

Lemma filter_nil {A} (p : A -> bool) l : filter p l = [] <-> (forall x, In x l -> p x = false).
Proof.
  induction l as [|a l IH]; simpl; split; auto.
  - intros _ x [].
  - destruct (p a) eqn:E; [discriminate|]. intros H x [<-|Hx]; auto. apply IH; auto.
  - intros H. rewrite (H a (or_introl eq_refl)). apply IH. intros x Hx; apply H; auto.
Qed.

Lemma app_nil2 {A} (a b : list A) : a ++ b = [] <-> a = [] /\ b = [].
Proof. split; [apply app_eq_nil | intros [-> ->]; reflexivity]. Qed.

Lemma conf_tuple_go_spec f we ge : length ge = length we ->
  (conf_tuple_go f we ge = [] <-> Forall2 (fun x y => f x y = []) ge we).
Proof.
  revert ge; induction we as [|y we IH]; intros [|x ge] L; simpl in L; try discriminate.
  - simpl; split; auto.
  - injection L as L. simpl. rewrite app_nil2, (IH ge L). split.
    + intros [E1 E2]. constructor; auto.
    + intros F. inversion F; subst. auto.
Qed.

(* with identical key lists (no duplicates), lookup walks both lists in step *)
Lemma conf_obj_go_spec f ga wa :
  NoDup (keys ga) -> keys ga = keys wa ->
  (conf_obj_go f ga wa = [] <-> Forall2 (fun x y => f (snd x) (snd y) = []) ga wa).
Proof.
  intros ND K.
  (* generalise: wa is a suffix-aligned sublist; prove for any sub-suffix *)
  assert (G : forall ga' wa', keys ga' = keys wa' ->
              (forall kv, In kv ga' -> lookup (fst kv) ga = Some (snd kv)) ->
              (conf_obj_go f ga wa' = [] <-> Forall2 (fun x y => f (snd x) (snd y) = []) ga' wa')).
  { intros ga'. induction ga' as [|[k g] ga' IH]; intros [|[k' w] wa'] K' L; simpl in K'; try discriminate.
    - simpl. split; auto.
    - injection K' as Ek K'. subst k'.
      pose proof (L (k, g) (or_introl eq_refl)) as Lk. cbn [fst snd] in Lk.
      cbn [conf_obj_go fst snd]. rewrite Lk. rewrite app_nil2.
      rewrite (IH wa' K') by (intros kv Hin; apply L; right; auto).
      split.
      + intros [E1 E2]. constructor; auto.
      + intros F. inversion F; subst; auto. }
  apply G; auto. intros kv Hin. apply lookup_sorted_self; auto.
Qed.

Lemma Forall2_length {A B} (R : A -> B -> Prop) l1 l2 : Forall2 R l1 l2 -> length l1 = length l2.
Proof. induction 1; simpl; auto. Qed.

Lemma Forall2_keys (R : ty -> ty -> Prop) (a1 a2 : list (str * ty)) :
  Forall2 (fun x y => fst x = fst y /\ R (snd x) (snd y)) a1 a2 -> keys a1 = keys a2.
Proof. induction 1 as [|x y l1 l2 [E _] _ IH]; simpl; auto. f_equal; auto. Qed.

Theorem conformance_iff : forall c t, wf_ty t = true -> wf_ty c = true -> (conformance t c = [] <-> Conf t c).
Proof.
  induction c using ty_ind2; intros t Wt Wc; rewrite conformance_unfold.
  - split; constructor.
  - (* TBool *) destruct (ty_equals t TBool) eqn:E.
    + apply ty_equals_iff_eq in E; auto. subst. split; constructor.
    + destruct t; simpl in *; try discriminate; split; try discriminate; intros X; inversion X.
  - destruct (ty_equals t TNum) eqn:E.
    + apply ty_equals_iff_eq in E; auto. subst. split; constructor.
    + destruct t; simpl in *; try discriminate; split; try discriminate; intros X; inversion X.
  - destruct (ty_equals t TStr) eqn:E.
    + apply ty_equals_iff_eq in E; auto. subst. split; constructor.
    + destruct t; simpl in *; try discriminate; split; try discriminate; intros X; inversion X.
  - (* TList *) destruct (ty_equals t (TList c)) eqn:E.
    + apply ty_equals_iff_eq in E; auto. subst. split; auto using Conf_refl.
    + destruct t; simpl; try (split; [discriminate | intros X; inversion X]).
      simpl in Wt, Wc. rewrite (IHc t Wt Wc). split; [constructor; auto | intros X; inversion X; auto].
  - destruct (ty_equals t (TSet c)) eqn:E.
    + apply ty_equals_iff_eq in E; auto. subst. split; auto using Conf_refl.
    + destruct t; simpl; try (split; [discriminate | intros X; inversion X]).
      simpl in Wt, Wc. rewrite (IHc t Wt Wc). split; [constructor; auto | intros X; inversion X; auto].
  - destruct (ty_equals t (TMap c)) eqn:E.
    + apply ty_equals_iff_eq in E; auto. subst. split; auto using Conf_refl.
    + destruct t; simpl; try (split; [discriminate | intros X; inversion X]).
      simpl in Wt, Wc. rewrite (IHc t Wt Wc). split; [constructor; auto | intros X; inversion X; auto].
  - (* tuple *)
    destruct (ty_equals t (TTuple es)) eqn:E.
    + apply ty_equals_iff_eq in E; auto. subst. split; auto using Conf_refl.
    + destruct t as [| | | | | | |ge| |]; simpl; try (split; [discriminate | intros X; inversion X]).
      simpl in Wt, Wc.
      destruct (Nat.eqb_spec (length ge) (length es)) as [L|L].
      * rewrite conf_tuple_go_spec by auto.
        split.
        -- intros F. constructor.
           clear E. revert ge Wt L F. induction H as [|y es Hy Hes IH]; intros [|x ge] Wt L F; simpl in L; try discriminate; auto.
           inversion F; subst. simpl in Wt, Wc. apply andb_true_iff in Wt as [Wx Wge]. apply andb_true_iff in Wc as [Wy Wes].
           constructor; [apply Hy; auto | apply IH; auto].
        -- intros X. inversion X as [| | | | | | |? ? F| |]; subst. clear X E.
           revert ge Wt L F. induction H as [|y es Hy Hes IH]; intros [|x ge] Wt L F; simpl in L; try discriminate; auto.
           inversion F; subst. simpl in Wt, Wc. apply andb_true_iff in Wt as [Wx Wge]. apply andb_true_iff in Wc as [Wy Wes].
           constructor; [apply Hy; auto | apply IH; auto].
      * split; [discriminate|]. intros X. inversion X as [| | | | | | |? ? F| |]; subst.
        apply Forall2_length in F. contradiction.
  - (* object *)
    destruct (ty_equals t (TObj attrs opt)) eqn:E.
    + apply ty_equals_iff_eq in E; auto. subst. split; auto using Conf_refl.
    + destruct t as [| | | | | | | |ga go|]; simpl; try (split; [discriminate | intros X; inversion X]).
      rewrite wf_ty_obj in Wt, Wc.
      apply andb_true_iff in Wt as [Wt Wg1]. apply andb_true_iff in Wt as [Wt _]. apply andb_true_iff in Wt as [Sk1 _].
      apply andb_true_iff in Wc as [Wc Wg2]. apply andb_true_iff in Wc as [Wc _]. apply andb_true_iff in Wc as [Sk2 _].
      apply wf_go_Forall in Wg1. apply wf_go_Forall in Wg2.
      rewrite !app_nil2, !map_const_nil, !filter_nil.
      split.
      * intros (U & M & G).
        assert (K : keys ga = keys attrs).
        { apply sorted_ext_eq; auto. intros k; split; intros Hk.
          - specialize (U k Hk). apply negb_false_iff in U. apply mem_In; auto.
          - specialize (M k Hk). apply negb_false_iff in M. apply mem_In; auto. }
        apply conf_obj_go_spec in G; auto; [|apply sorted_NoDup; auto].
        constructor.
        clear E U M Sk1 Sk2. revert ga K G Wg1.
        induction H as [|y wa Hy Hwa IH]; intros [|x ga] K G Wg1; simpl in K; try discriminate; auto.
        inversion G; subst. inversion Wg1; subst. inversion Wg2; subst. injection K as K0 K.
        constructor; [split; auto; apply Hy; auto | apply IH; auto].
      * intros X. inversion X as [| | | | | | | |? ? ? ? F|]; subst.
        pose proof (Forall2_keys _ _ _ F) as K. fold (keys ga) in K. fold (keys attrs) in K.
        repeat split.
        -- intros k Hk. apply negb_false_iff. apply mem_In. rewrite <- K; auto.
        -- intros k Hk. apply negb_false_iff. apply mem_In. rewrite K; auto.
        -- apply conf_obj_go_spec; auto; [apply sorted_NoDup; auto|].
           clear E X Sk1 Sk2 K. revert ga F Wg1.
           induction H as [|y wa Hy Hwa IH]; intros ga F Wg1; inversion F as [|x ? ga' ? [_ C] F']; subst; auto.
           inversion Wg1; subst. inversion Wg2; subst.
           constructor; [apply Hy; auto | apply IH; auto].
  - (* capsule *)
    destruct (ty_equals t (TCap id)) eqn:E.
    + apply ty_equals_iff_eq in E; auto. subst. split; auto using Conf_refl.
    + destruct t; simpl in *; try (split; [discriminate | intros X; inversion X; fail]).
      split; [discriminate|]. intros X; inversion X; subst. rewrite N.eqb_refl in E; discriminate.
Qed.

(* ---------- Type.Equals is an equivalence on well-formed types ---------- *)
Lemma ty_equals_refl t : wf_ty t = true -> ty_equals t t = true.
Proof. intros W. apply ty_equals_iff_eq; auto. Qed.
Lemma ty_equals_sym t u : wf_ty t = true -> wf_ty u = true -> ty_equals t u = ty_equals u t.
Proof.
  intros Wt Wu. destruct (ty_equals t u) eqn:E1, (ty_equals u t) eqn:E2; auto.
  - apply ty_equals_iff_eq in E1; auto. subst. rewrite ty_equals_refl in E2; auto.
  - apply ty_equals_iff_eq in E2; auto. subst. rewrite ty_equals_refl in E1; auto.
Qed.
Lemma ty_equals_trans t u v : wf_ty t = true -> wf_ty u = true -> wf_ty v = true ->
  ty_equals t u = true -> ty_equals u v = true -> ty_equals t v = true.
Proof.
  intros Wt Wu Wv E1 E2. apply ty_equals_iff_eq in E1; auto. apply ty_equals_iff_eq in E2; auto.
  subst. apply ty_equals_refl; auto.
Qed.

(* non-conformance always reports at least one error: restatement of conformance_iff *)
Lemma conformance_nonempty t c : wf_ty t = true -> wf_ty c = true -> ~ Conf t c -> conformance t c <> [].
Proof. intros Wt Wc H E. apply H. apply conformance_iff; auto. Qed.

(* ---------- stripping optional-attribute annotations changes nothing else ---------- *)
(* [SameButOpt t u]: identical except for the optional sets *)
Inductive SameButOpt : ty -> ty -> Prop :=
| SDyn : SameButOpt TDyn TDyn | SBool : SameButOpt TBool TBool
| SNum : SameButOpt TNum TNum | SStr : SameButOpt TStr TStr
| SCap i : SameButOpt (TCap i) (TCap i)
| SList a b : SameButOpt a b -> SameButOpt (TList a) (TList b)
| SSet a b : SameButOpt a b -> SameButOpt (TSet a) (TSet b)
| SMap a b : SameButOpt a b -> SameButOpt (TMap a) (TMap b)
| STuple l1 l2 : Forall2 SameButOpt l1 l2 -> SameButOpt (TTuple l1) (TTuple l2)
| SObj a1 o1 a2 o2 : Forall2 (fun x y => fst x = fst y /\ SameButOpt (snd x) (snd y)) a1 a2 ->
                     SameButOpt (TObj a1 o1) (TObj a2 o2).

Theorem strip_only_opt : forall t, SameButOpt t (strip_opt t) /\ has_opt (strip_opt t) = false.
Proof.
  induction t using ty_ind2; simpl; try (split; [constructor|reflexivity]).
  - destruct IHt; split; [constructor|]; auto.
  - destruct IHt; split; [constructor|]; auto.
  - destruct IHt; split; [constructor|]; auto.
  - split.
    + constructor. induction H as [|x l [Hx _] _ IH]; simpl; constructor; auto.
    + induction H as [|x l [_ Hx] _ IH]; simpl; auto. rewrite Hx. simpl. exact IH.
  - split.
    + constructor. induction H as [|x l [Hx _] _ IH]; simpl; constructor; auto.
    + induction H as [|x l [_ Hx] _ IH]; simpl; auto. rewrite Hx. simpl. exact IH.
Qed.

Lemma strip_no_opt_id : forall t, has_opt t = false -> strip_opt t = t.
Proof.
  induction t using ty_ind2; simpl; intros Ho; auto.
  - f_equal; auto.
  - f_equal; auto.
  - f_equal; auto.
  - f_equal. induction H as [|x l Hx _ IH]; simpl in *; auto.
    apply orb_false_iff in Ho as [H1 H2]. f_equal; auto.
  - apply orb_false_iff in Ho as [Ho1 Ho2]. destruct opt; [|discriminate].
    f_equal. induction H as [|[k x] l Hx _ IH]; simpl in *; auto.
    apply orb_false_iff in Ho2 as [H1 H2]. f_equal; [f_equal|]; auto.
Qed.

(* ---------- JSON round trip of capsule-free types ---------- *)
Fixpoint keys_normal (norm : str -> str) (t : ty) : Prop :=
  match t with
  | TList e | TSet e | TMap e => keys_normal norm e
  | TTuple es => (fix go (l : list ty) : Prop := match l with [] => True | x :: l' => keys_normal norm x /\ go l' end) es
  | TObj attrs opt =>
      (forall k, In k (keys attrs) -> norm k = k) /\
      (fix go (l : list (str * ty)) : Prop := match l with [] => True | kv :: l' => keys_normal norm (snd kv) /\ go l' end) attrs
  | _ => True
  end.

Lemma mk_object_sorted norm attrs opt :
  sorted_keys (keys attrs) = true -> sorted_keys opt = true ->
  forallb (fun k => mem k (keys attrs)) opt = true ->
  (forall k, In k (keys attrs) -> norm k = k) ->
  mk_object norm attrs opt = Ok (TObj attrs opt).
Proof.
  intros Sa So Sub Hn. unfold mk_object.
  assert (E : fold_left (fun acc kv => kv_insert (norm (fst kv)) (snd kv) acc) attrs [] = attrs).
  { rewrite (fold_kv_insert_sorted norm attrs []); auto.
    intros kv Hkv. apply Hn. unfold keys. apply in_map. exact Hkv. }
  rewrite E.
  assert (Hno : forall k, In k opt -> norm k = k).
  { intros k Hk. apply Hn. rewrite forallb_forall in Sub. apply mem_In. apply Sub. exact Hk. }
  destruct opt as [|o opt']; auto.
  assert (F : forallb (fun k => mem (norm k) (keys attrs)) (o :: opt') = true).
  { rewrite forallb_forall in *. intros k Hk. rewrite Hno; auto. }
  rewrite F.
  rewrite (fold_set_insert_sorted norm (o :: opt') []); auto.
Qed.

Lemma strings_of_json_strs l : strings_of_json (JArr (map JStr l)) = Ok l.
Proof.
  simpl. induction l as [|s l IH]; simpl; auto. rewrite IH. reflexivity.
Qed.

Theorem type_json_roundtrip norm : forall t,
  wf_ty t = true -> has_cap t = false -> keys_normal norm t ->
  exists j, type_to_json t = Ok j /\ type_of_json norm j = Ok t.
Proof.
  induction t using ty_ind2; intros W C K.
  - eexists; split; reflexivity.
  - eexists; split; reflexivity.
  - eexists; split; reflexivity.
  - eexists; split; reflexivity.
  - destruct (IHt W C K) as (j & E1 & E2). exists (JArr [JStr s_list; j]). split.
    + simpl. rewrite E1. reflexivity.
    + change (type_of_json norm (JArr [JStr s_list; j])) with (rmap TList (type_of_json norm j)). rewrite E2. reflexivity.
  - destruct (IHt W C K) as (j & E1 & E2). exists (JArr [JStr s_set; j]). split.
    + simpl. rewrite E1. reflexivity.
    + change (type_of_json norm (JArr [JStr s_set; j])) with (rmap TSet (type_of_json norm j)). rewrite E2. reflexivity.
  - destruct (IHt W C K) as (j & E1 & E2). exists (JArr [JStr s_map; j]). split.
    + simpl. rewrite E1. reflexivity.
    + change (type_of_json norm (JArr [JStr s_map; j])) with (rmap TMap (type_of_json norm j)). rewrite E2. reflexivity.
  - (* tuple *)
    assert (G : exists js,
      (fix go (l : list ty) : res (list jv) :=
         match l with [] => Ok [] | x :: l' => do j <- type_to_json x; do js <- go l'; Ok (j :: js) end) es = Ok js /\
      (fix go (l : list jv) : res (list ty) :=
         match l with [] => Ok [] | x :: l' => do t <- type_of_json norm x; do ts <- go l'; Ok (t :: ts) end) js = Ok es).
    { simpl in W, C, K. revert W C K. induction H as [|x l Hx _ IH]; intros W C K.
      - exists []. split; reflexivity.
      - simpl in W, C. apply andb_true_iff in W as [Wx Wl]. apply orb_false_iff in C as [Cx Cl]. destruct K as [Kx Kl].
        destruct (Hx Wx Cx Kx) as (j & E1 & E2). destruct (IH Wl Cl Kl) as (js & F1 & F2).
        exists (j :: js). split.
        + rewrite E1. simpl. rewrite F1. reflexivity.
        + rewrite E2. simpl. rewrite F2. reflexivity. }
    destruct G as (js & F1 & F2).
    exists (JArr [JStr s_tuple; JArr js]). split.
    + simpl. simpl in F1. rewrite F1. reflexivity.
    + change (type_of_json norm (JArr [JStr s_tuple; JArr js])) with
        (do es' <- (fix go (l : list jv) : res (list ty) :=
           match l with [] => Ok [] | x :: l' => do t <- type_of_json norm x; do ts <- go l'; Ok (t :: ts) end) js; Ok (TTuple es')).
      rewrite F2. reflexivity.
  - (* object *)
    rewrite wf_ty_obj in W.
    apply andb_true_iff in W as [W Wg]. apply andb_true_iff in W as [W Wo]. apply andb_true_iff in W as [Sk So].
    simpl in C. destruct K as [Kn Kg].
    assert (G : exists m,
      (fix go (l : list (str * ty)) : res (list (str * jv)) :=
         match l with [] => Ok [] | kv :: l' => do j <- type_to_json (snd kv); do m <- go l'; Ok ((fst kv, j) :: m) end) attrs = Ok m /\
      (fix go (l : list (str * jv)) : res (list (str * ty)) :=
         match l with [] => Ok [] | kv :: l' => do t <- type_of_json norm (snd kv); do r <- go l'; Ok ((fst kv, t) :: r) end) m = Ok attrs).
    { clear Sk Wo Kn. apply wf_go_Forall in Wg. revert Wg Kg C. induction H as [|[k x] l Hx _ IH]; intros Wg Kg C.
      - exists []. split; reflexivity.
      - simpl in C. apply orb_false_iff in C as [Cx Cl]. destruct Kg as [Kx Kl]. inversion Wg as [|? ? Wx Wl]; subst.
        destruct (Hx Wx Cx Kx) as (j & E1 & E2). destruct (IH Wl Kl Cl) as (m & F1 & F2).
        exists ((k, j) :: m). split.
        + simpl. simpl in E1. rewrite E1. simpl. rewrite F1. reflexivity.
        + simpl. rewrite E2. simpl. rewrite F2. reflexivity. }
    destruct G as (m & F1 & F2).
    exists (JArr ([JStr s_object; JObj m] ++ match opt with [] => [] | _ => [JArr (map JStr opt)] end)). split.
    + simpl. simpl in F1. rewrite F1. reflexivity.
    + destruct opt as [|o opt'].
      * change (type_of_json norm (JArr ([JStr s_object; JObj m] ++ []))) with
          (do attrs' <- (fix go (l : list (str * jv)) : res (list (str * ty)) :=
             match l with [] => Ok [] | kv :: l' => do t <- type_of_json norm (snd kv); do r <- go l'; Ok ((fst kv, t) :: r) end) m;
           mk_object norm attrs' []).
        rewrite F2. cbn [bind]. apply mk_object_sorted; auto.
      * change (type_of_json norm (JArr ([JStr s_object; JObj m] ++ [JArr (map JStr (o :: opt'))]))) with
          (do attrs' <- (fix go (l : list (str * jv)) : res (list (str * ty)) :=
             match l with [] => Ok [] | kv :: l' => do t <- type_of_json norm (snd kv); do r <- go l'; Ok ((fst kv, t) :: r) end) m;
           do opt <- strings_of_json (JArr (map JStr (o :: opt')));
           do t <- match mk_object norm attrs' opt with Panic => Err OtherError | r => r end; Ok t).
        rewrite F2. cbn [bind]. rewrite strings_of_json_strs. cbn [bind].
        rewrite mk_object_sorted; auto.
  - simpl in C. discriminate.
Qed.
