(* SetAlgProofs.v — the bucket algorithm refines a mathematical set modulo the equivalence,
   provided equivalent elements have equal hashes (hash coherence). *)
From Coq Require Import List ZArith Bool Lia Sorted.
Import ListNotations.
From Cty Require Import SetAlg.
Open Scope Z_scope.

Section Proofs.
  Variable A : Type.
  Variable h : A -> Z.
  Variable eqv : A -> A -> bool.
  Hypothesis eqv_refl : forall a, eqv a a = true.
  Hypothesis eqv_sym : forall a b, eqv a b = eqv b a.
  Hypothesis eqv_trans : forall a b c, eqv a b = true -> eqv b c = true -> eqv a c = true.
  Hypothesis coherent : forall a b, eqv a b = true -> h a = h b.

  Notation gbuckets := (gbuckets A).
  Notation gmembers := (gmembers A).
  Notation g_has := (g_has A h eqv).
  Notation g_add := (g_add A h eqv).
  Notation g_remove := (g_remove A h eqv).

  (* abstract membership: some member is equivalent *)
  Definition gmem (bs : gbuckets) (x : A) : bool := existsb (eqv x) (gmembers bs).

  Record Inv (bs : gbuckets) : Prop := {
    inv_sorted : StronglySorted Z.lt (map fst bs);
    inv_hash : Forall (fun b => Forall (fun x => h x = fst b) (snd b)) bs;
    inv_nodup : ForallOrdPairs (fun x y => eqv x y = false) (gmembers bs)
  }.

  Lemma inv_nil : Inv [].
  Proof. constructor; simpl; constructor. Qed.

  Lemma sorted_tail (b : Z * list A) bs : StronglySorted Z.lt (map fst (b :: bs)) -> StronglySorted Z.lt (map fst bs).
  Proof. simpl. intros H. inversion H; auto. Qed.

  Lemma sorted_head_lt (b : Z * list A) bs : StronglySorted Z.lt (map fst (b :: bs)) -> Forall (fun c => fst b < fst c) bs.
  Proof.
    simpl. intros H. inversion H as [|? ? _ F]; subst. rewrite Forall_map in F. exact F.
  Qed.

  (* with sorted (hence distinct) keys and correct hashes, every member with hash k sits in the k bucket *)
  Lemma bucket_of_complete bs : StronglySorted Z.lt (map fst bs) ->
    Forall (fun b => Forall (fun x => h x = fst b) (snd b)) bs ->
    forall m, In m (gmembers bs) -> In m (gbucket_of A (h m) bs).
  Proof.
    induction bs as [|b bs IH]; intros S H m Hm; [inversion Hm|].
    unfold gmembers in Hm. simpl in Hm. apply in_app_or in Hm.
    inversion H as [|? ? Hb Hbs]; subst.
    unfold gbucket_of. simpl.
    destruct Hm as [Hm|Hm].
    - rewrite Forall_forall in Hb. rewrite (Hb m Hm). rewrite Z.eqb_refl. exact Hm.
    - pose proof (sorted_head_lt _ _ S) as Hlt.
      assert (Hne : (fst b =? h m) = false).
      { apply Z.eqb_neq. intros E.
        (* m lies in some later bucket c with fst c = h m > fst b *)
        unfold gmembers in Hm. apply in_flat_map in Hm as (c & Hc & Hmc).
        rewrite Forall_forall in Hlt, Hbs. pose proof (Hlt c Hc) as L.
        pose proof (Hbs c Hc) as Hh. rewrite Forall_forall in Hh. rewrite (Hh m Hmc) in E. lia. }
      rewrite Hne. apply (IH (sorted_tail _ _ S) Hbs m Hm).
  Qed.

  Lemma bucket_of_sound bs k m : In m (gbucket_of A k bs) -> In m (gmembers bs).
  Proof.
    unfold gbucket_of. destruct (find (fun b => fst b =? k) bs) as [b|] eqn:F; [|intros []].
    apply find_some in F as [Hin _]. intros Hm. unfold gmembers. apply in_flat_map. exists b. auto.
  Qed.

  (* Has answers abstract membership *)
  Theorem g_has_spec bs x : Inv bs -> g_has bs x = gmem bs x.
  Proof.
    intros [S H _]. unfold SetAlg.g_has, gmem.
    destruct (existsb (eqv x) (gmembers bs)) eqn:E.
    - apply existsb_exists in E as (m & Hm & Em). apply existsb_exists. exists m. split; auto.
      rewrite (coherent _ _ Em). apply bucket_of_complete; auto.
    - apply not_true_is_false. intros C. apply existsb_exists in C as (m & Hm & Em).
      apply bucket_of_sound in Hm.
      assert (existsb (eqv x) (gmembers bs) = true) by (apply existsb_exists; eauto). congruence.
  Qed.

  (* inserting into the bucket structure inserts into the member list somewhere *)
  Lemma insert_members k x bs : exists l1 l2,
    gmembers bs = l1 ++ l2 /\ gmembers (gbucket_insert A k x bs) = l1 ++ x :: l2.
  Proof.
    induction bs as [|b bs IH].
    - exists [], []. split; reflexivity.
    - simpl. destruct (k <? fst b).
      + exists [], (gmembers (b :: bs)). split; reflexivity.
      + destruct (k =? fst b).
        * exists (snd b), (gmembers bs). unfold gmembers. simpl. split; auto.
          rewrite <- app_assoc. reflexivity.
        * destruct IH as (l1 & l2 & E1 & E2). exists (snd b ++ l1), l2. unfold gmembers in *. simpl.
          rewrite E1, E2. rewrite !app_assoc. split; reflexivity.
  Qed.

  Lemma fop_insert (R : A -> A -> Prop) x l1 l2 :
    (forall a b, R a b -> R b a) ->
    ForallOrdPairs R (l1 ++ l2) -> (forall y, In y (l1 ++ l2) -> R x y) ->
    ForallOrdPairs R (l1 ++ x :: l2).
  Proof.
    intros Rs. induction l1 as [|a l1 IH]; simpl; intros F Hx.
    - constructor; auto. apply Forall_forall. auto.
    - inversion F as [|? ? Fa F']; subst. constructor.
      + apply Forall_forall. intros y Hy. apply in_app_or in Hy as [Hy|[<-|Hy]].
        * rewrite Forall_forall in Fa. apply Fa. apply in_or_app; auto.
        * apply Rs. apply Hx. left. reflexivity.
        * rewrite Forall_forall in Fa. apply Fa. apply in_or_app; auto.
      + apply IH; auto.
  Qed.

  Lemma insert_sorted k x bs : StronglySorted Z.lt (map fst bs) ->
    StronglySorted Z.lt (map fst (gbucket_insert A k x bs)) /\
    (forall c, In c (map fst (gbucket_insert A k x bs)) -> c = k \/ In c (map fst bs)).
  Proof.
    induction bs as [|b bs IH]; intros S.
    - simpl. split; [repeat constructor|]. intros c [<-|[]]. auto.
    - simpl. destruct (k <? fst b) eqn:L.
      + apply Z.ltb_lt in L. split.
        * simpl. simpl in S. constructor; [exact S|]. constructor; [exact L|].
          inversion S as [|? ? _ F]; subst. rewrite Forall_forall in *. intros c Hc. specialize (F c Hc). lia.
        * simpl. intros c [<-|Hc]; auto.
      + destruct (k =? fst b) eqn:E.
        * apply Z.eqb_eq in E. subst k. split; [exact S|]. simpl. intros c Hc. right. exact Hc.
        * apply Z.ltb_ge in L. apply Z.eqb_neq in E.
          destruct (IH (sorted_tail _ _ S)) as [S' I']. split.
          -- simpl. constructor; auto. apply Forall_forall. intros c Hc.
             destruct (I' c Hc) as [->|Hc']; [lia|].
             simpl in S. inversion S as [|? ? _ F]; subst. rewrite Forall_forall in F. apply F. exact Hc'.
          -- simpl. intros c [<-|Hc]; auto. destruct (I' c Hc); auto.
  Qed.

  Lemma insert_hash k x bs : h x = k ->
    Forall (fun b => Forall (fun y => h y = fst b) (snd b)) bs ->
    Forall (fun b => Forall (fun y => h y = fst b) (snd b)) (gbucket_insert A k x bs).
  Proof.
    intros Hk. induction bs as [|b bs IH]; intros H; simpl.
    - repeat constructor. exact Hk.
    - inversion H as [|? ? Hb Hbs]; subst. destruct (h x <? fst b); [repeat constructor; auto|].
      destruct (h x =? fst b) eqn:E.
      + apply Z.eqb_eq in E. constructor; [|exact Hbs]. simpl. apply Forall_app. split.
        * rewrite E. exact Hb.
        * constructor; auto.
      + constructor; auto.
  Qed.

  Theorem g_add_inv bs x : Inv bs -> Inv (g_add bs x).
  Proof.
    intros I. unfold SetAlg.g_add. rewrite (g_has_spec _ _ I).
    destruct (gmem bs x) eqn:M; [exact I|].
    destruct I as [S H N]. constructor.
    - apply insert_sorted. exact S.
    - apply insert_hash; auto.
    - destruct (insert_members (h x) x bs) as (l1 & l2 & E1 & E2). rewrite E2. rewrite E1 in N.
      apply fop_insert; auto.
      + intros a b Hab. rewrite eqv_sym. exact Hab.
      + intros y Hy. unfold gmem in M. rewrite E1 in M.
        destruct (eqv x y) eqn:E; auto.
        assert (existsb (eqv x) (l1 ++ l2) = true) by (apply existsb_exists; eauto). congruence.
  Qed.

  (* after Add, the abstract set is the old one plus x *)
  Theorem g_add_mem bs x y : Inv bs -> gmem (g_add bs x) y = gmem bs y || eqv y x.
  Proof.
    intros I. unfold SetAlg.g_add. rewrite (g_has_spec _ _ I).
    destruct (gmem bs x) eqn:M.
    - destruct (eqv y x) eqn:E; [|rewrite orb_false_r; reflexivity].
      rewrite orb_true_r. unfold gmem in *. apply existsb_exists in M as (m & Hm & Em).
      apply existsb_exists. exists m. split; auto. eapply eqv_trans; eauto.
    - unfold gmem. destruct (insert_members (h x) x bs) as (l1 & l2 & E1 & E2). rewrite E2, E1.
      rewrite !existsb_app. simpl. destruct (existsb (eqv y) l1), (eqv y x), (existsb (eqv y) l2); reflexivity.
  Qed.

  (* a set never holds two equivalent members *)
  Theorem inv_no_two_equal bs : Inv bs -> ForallOrdPairs (fun x y => eqv x y = false) (gmembers bs).
  Proof. intros [_ _ N]. exact N. Qed.

  (* every state reachable from the empty set by Add is an invariant state, and membership is
     that of the mathematical set of the added elements *)
  Theorem adds_inv (xs : list A) : Inv (fold_left g_add xs []).
  Proof.
    assert (G : forall bs, Inv bs -> Inv (fold_left g_add xs bs)).
    { induction xs as [|x xs IH]; simpl; intros bs I; auto. apply IH. apply g_add_inv. exact I. }
    apply G. apply inv_nil.
  Qed.

  Theorem adds_mem (xs : list A) y : gmem (fold_left g_add xs []) y = existsb (eqv y) xs.
  Proof.
    assert (G : forall bs, Inv bs -> gmem (fold_left g_add xs bs) y = gmem bs y || existsb (eqv y) xs).
    { induction xs as [|x xs IH]; simpl; intros bs I.
      - rewrite orb_false_r. reflexivity.
      - rewrite IH by (apply g_add_inv; exact I). rewrite g_add_mem by exact I. rewrite orb_assoc. reflexivity. }
    rewrite G by apply inv_nil. reflexivity.
  Qed.

  (* contents do not depend on the insertion order *)
  Theorem adds_perm_mem (xs ys : list A) y : (forall a, In a xs <-> In a ys) ->
    gmem (fold_left g_add xs []) y = gmem (fold_left g_add ys []) y.
  Proof.
    intros P. rewrite !adds_mem.
    destruct (existsb (eqv y) xs) eqn:E1, (existsb (eqv y) ys) eqn:E2; auto.
    - apply existsb_exists in E1 as (m & Hm & Em). apply P in Hm.
      assert (existsb (eqv y) ys = true) by (apply existsb_exists; eauto). congruence.
    - apply existsb_exists in E2 as (m & Hm & Em). apply P in Hm.
      assert (existsb (eqv y) xs = true) by (apply existsb_exists; eauto). congruence.
  Qed.
End Proofs.
