(* HeapProofs.v — isolation of mutable helper sets over all histories (C20). *)
From Coq Require Import List ZArith Bool Lia.
From Cty Require Import Heap.
Import ListNotations.
Open Scope Z_scope.

(* ---------- the defect as it was coded: Copy sharing bucket arrays ---------- *)
Definition w_ops : list op := [OpAdd 0 0; OpAdd 0 3; OpAdd 0 6; OpCopy 0; OpAdd 0 9; OpAdd 1 12].
Lemma shallow_copy_refuted :
  views (run (fun v => v mod 3) false w_ops) = [[(0, [0; 3; 6; 12])]; [(0, [0; 3; 6; 12])]] /\
  isolated_run (fun v => v mod 3) false {| st_heap := []; st_sets := [[]] |} w_ops = false /\
  isolated_run (fun v => v mod 3) true {| st_heap := []; st_sets := [[]] |} w_ops = true.
Proof. split; [|split]; vm_compute; reflexivity. Qed.

(* ---------- heaps that agree outside a set of arrays ---------- *)
Definition agree (h h' : heap) (A : list nat) : Prop :=
  (length h <= length h')%nat /\ forall a, (a < length h)%nat -> ~ In a A -> cells h' a = cells h a.

Lemma agree_refl h A : agree h h A.
Proof. split; [lia|auto]. Qed.
Lemma agree_trans h1 h2 h3 A : agree h1 h2 A -> agree h2 h3 A -> agree h1 h3 A.
Proof.
  intros [L1 E1] [L2 E2]. split; [lia|]. intros a Ha Hn. rewrite E2 by (try lia; assumption). apply E1; assumption.
Qed.
Lemma agree_weaken h h' A B : agree h h' A -> (forall a, In a A -> In a B) -> agree h h' B.
Proof. intros [L E] S. split; [exact L|]. intros a Ha Hn. apply E; [exact Ha|]. intros I. apply Hn, S, I. Qed.

Lemma cells_app_l h x a : (a < length h)%nat -> cells (h ++ x) a = cells h a.
Proof. intros H. unfold cells. apply app_nth1. exact H. Qed.
Lemma agree_alloc h x A : agree h (h ++ [x]) A.
Proof. split; [rewrite app_length; cbn; lia|]. intros a Ha _. apply cells_app_l. exact Ha. Qed.

Lemma set_nth_length {A} n (x : A) l : length (set_nth n x l) = length l.
Proof. revert n. induction l as [|y l IH]; intros n; [destruct n; reflexivity|]. destruct n; cbn; [reflexivity|]. rewrite IH. reflexivity. Qed.
Lemma set_nth_other {A} n m (x d : A) l : n <> m -> nth m (set_nth n x l) d = nth m l d.
Proof.
  revert n m. induction l as [|y l IH]; intros n m H; [destruct n; reflexivity|].
  destruct n, m; cbn; try reflexivity; try congruence. apply IH. congruence.
Qed.
Lemma agree_write h a x : agree h (set_nth a x h) [a].
Proof.
  split; [rewrite set_nth_length; lia|]. intros b Hb Hn. unfold cells. apply set_nth_other. intros E. apply Hn. left. exact E.
Qed.

(* ---------- ownership ---------- *)
Definition owned (s : gset) : list nat := map (fun kb => s_arr (snd kb)) s.

Lemma append1_agree h b v : let '(h', b') := append1 h b v in
  agree h h' [s_arr b] /\ (s_arr b' = s_arr b \/ (s_arr b' = length h /\ (length h < length h')%nat)).
Proof.
  unfold append1. destruct (Nat.ltb (s_len b) (s_cap b)).
  - split; [apply agree_write|left; reflexivity].
  - split; [apply agree_alloc|right]. cbn [s_arr]. split; [reflexivity|rewrite app_length; cbn; lia].
Qed.

Lemma owned_put hv b s : forall a, In a (owned (put_bucket hv b s)) -> a = s_arr b \/ In a (owned s).
Proof.
  induction s as [|[k b0] s IH]; intros a H.
  - cbn in H. destruct H as [<-|[]]. left. reflexivity.
  - cbn [put_bucket] in H. destruct (k =? hv).
    + cbn in H. destruct H as [<-|H]; [left; reflexivity|right; right; exact H].
    + cbn in H. destruct H as [<-|H]; [right; left; reflexivity|]. destruct (IH a H) as [E|I]; [left; exact E|right; right; exact I].
Qed.
Lemma owned_del hv s : forall a, In a (owned (del_bucket hv s)) -> In a (owned s).
Proof.
  induction s as [|[k b0] s IH]; intros a H; [exact H|]. cbn [del_bucket] in H. destruct (k =? hv).
  - right. exact H.
  - cbn in H. destruct H as [<-|H]; [left; reflexivity|right; apply IH; exact H].
Qed.
Lemma bucket_owned hv s b : bucket_of hv s = Some b -> In (s_arr b) (owned s).
Proof.
  induction s as [|[k b0] s IH]; [discriminate|]. cbn [bucket_of]. destruct (k =? hv).
  - intros H. injection H as <-. left. reflexivity.
  - intros H. right. apply IH. exact H.
Qed.

Lemma nodup_app {A} (a b : list A) : NoDup a -> NoDup b -> (forall x, In x a -> In x b -> False) -> NoDup (a ++ b).
Proof.
  induction a as [|y a IH]; intros Ha Hb D; [exact Hb|]. cbn. apply NoDup_cons_iff in Ha as [H1 H2]. constructor.
  - intros I. apply in_app_or in I as [I|I]; [exact (H1 I)|]. apply (D y); [left; reflexivity|exact I].
  - apply IH; [exact H2|exact Hb|]. intros x Ia Ib. apply (D x); [right; exact Ia|exact Ib].
Qed.

Lemma put_same hv b s b0 : bucket_of hv s = Some b0 -> s_arr b = s_arr b0 -> owned (put_bucket hv b s) = owned s.
Proof.
  induction s as [|[k b1] s IH]; [discriminate|]. cbn [bucket_of put_bucket]. destruct (k =? hv).
  - intros H E. injection H as ->. cbn. rewrite E. reflexivity.
  - intros H E. cbn. f_equal. apply IH; assumption.
Qed.
Lemma put_fresh_nodup hv b s : NoDup (owned s) -> ~ In (s_arr b) (owned s) -> NoDup (owned (put_bucket hv b s)).
Proof.
  induction s as [|[k b1] s IH]; intros N F.
  - cbn. constructor; [intros []|constructor].
  - cbn [put_bucket]. cbn in N, F. apply NoDup_cons_iff in N as [N1 N2]. destruct (k =? hv).
    + cbn. constructor; [intros I; apply F; right; exact I|exact N2].
    + cbn. constructor.
      * intros I. apply owned_put in I as [E|I]; [apply F; left; exact E|exact (N1 I)].
      * apply IH; [exact N2|]. intros I. apply F. right. exact I.
Qed.
Lemma del_nodup hv s : NoDup (owned s) -> NoDup (owned (del_bucket hv s)).
Proof.
  induction s as [|[k b1] s IH]; intros N; [exact N|]. cbn [del_bucket]. cbn in N. apply NoDup_cons_iff in N as [N1 N2].
  destruct (k =? hv); [exact N2|]. cbn. constructor; [intros I; apply N1; apply (owned_del _ _ _ I)|apply IH; exact N2].
Qed.

Lemma agree_trans' h1 h2 h3 A B : agree h1 h2 A -> agree h2 h3 B ->
  (forall a, (a < length h1)%nat -> In a B -> In a A) -> agree h1 h3 A.
Proof.
  intros [L1 E1] [L2 E2] S. split; [lia|]. intros a Ha Hn.
  rewrite E2; [apply E1; assumption|lia|]. intros I. apply Hn. apply S; assumption.
Qed.

Section WithHash.
Variable hash : Z -> Z.

(* each operation touches only arrays its own set owns, or fresh ones; what the set owns afterwards
   is what it owned before or fresh *)
Definition fresh_or_old (h h' : heap) (s s' : gset) : Prop :=
  forall a, In a (owned s') -> In a (owned s) \/ (length h <= a < length h')%nat.

Lemma add_local h s v : forall h' s', set_add hash h s v = (h', s') -> agree h h' (owned s) /\ fresh_or_old h h' s s'.
Proof.
  intros h' s'. unfold set_add. destruct (bucket_of (hash v) s) as [b|] eqn:B.
  - destruct (mem v (elems h b)).
    + intros E. injection E as <- <-. split; [apply agree_refl|intros a I; left; exact I].
    + pose proof (append1_agree h b v) as P. destruct (append1 h b v) as [h1 b1]. destruct P as [A O].
      intros E. injection E as <- <-. split.
      * apply (agree_weaken _ _ _ _ A). intros a [<-|[]]. apply (bucket_owned _ _ _ B).
      * intros a I. apply owned_put in I as [->|I]; [|left; exact I].
        destruct O as [->|[-> L]]; [left; apply (bucket_owned _ _ _ B)|right; destruct A; lia].
  - pose proof (append1_agree (h ++ [[0]]) {| s_arr := length h; s_len := 0; s_cap := 1 |} v) as P.
    destruct (append1 (h ++ [[0]]) {| s_arr := length h; s_len := 0; s_cap := 1 |} v) as [h2 b1]. destruct P as [A O].
    cbn [s_arr] in A, O. intros E. injection E as <- <-.
    assert (L1 : length (h ++ [[0]]) = S (length h)) by (rewrite app_length; cbn; lia).
    split.
    + apply (agree_trans' _ (h ++ [[0]]) _ _ [length h]); [apply agree_alloc|exact A|].
      intros a Ha [<-|[]]. lia.
    + intros a I. apply owned_put in I as [->|I]; [|left; exact I]. right.
      destruct A as [LA _]. destruct O as [->|[-> L]]; lia.
Qed.

Lemma remove_local h s v : forall h' s', set_remove hash h s v = (h', s') -> agree h h' (owned s) /\ fresh_or_old h h' s s'.
Proof.
  intros h' s'. unfold set_remove. destruct (bucket_of (hash v) s) as [b|] eqn:B.
  - destruct (mem v (elems h b)).
    + destruct (remove_first v (elems h b)) as [|x l].
      * intros E. injection E as <- <-. split; [apply agree_refl|]. intros a I. left. apply (owned_del _ _ _ I).
      * unfold fresh. intros E. injection E as <- <-. split; [apply agree_alloc|].
        intros a I. apply owned_put in I as [->|I]; [|left; exact I]. right. cbn [s_arr]. rewrite app_length. cbn. lia.
    + intros E. injection E as <- <-. split; [apply agree_refl|intros a I; left; exact I].
  - intros E. injection E as <- <-. split; [apply agree_refl|intros a I; left; exact I].
Qed.

(* the deep copy: touches nothing existing, owns only fresh arrays, and reports what the original reports *)
Lemma copy_fold_local l : forall h out h' s', 
  fold_left (fun acc kb => let '(h0, out) := acc in
                           let '(h1, b1) := fresh h0 (elems h0 (snd kb)) in (h1, out ++ [(fst kb, b1)])) l (h, out) = (h', s') ->
  agree h h' [] /\ (forall a, In a (owned s') -> In a (owned out) \/ (length h <= a < length h')%nat).
Proof.
  induction l as [|kb l IH]; intros h out h' s' E.
  - cbn in E. injection E as <- <-. split; [apply agree_refl|intros a I; left; exact I].
  - cbn [fold_left] in E. unfold fresh in E at 2.
    apply IH in E as [A O]. split.
    + apply (agree_trans _ (h ++ [elems h (snd kb)])); [apply agree_alloc|exact A].
    + intros a I. destruct A as [LA _]. rewrite app_length in LA. cbn in LA.
      destruct (O a I) as [I'|R].
      * unfold owned in I'. rewrite map_app in I'. apply in_app_or in I' as [I'|[<-|[]]]; [left; exact I'|]. right. cbn [snd s_arr]. lia.
      * right. rewrite app_length in R. cbn in R. lia.
Qed.

Lemma copy_local h s : forall h' s', set_copy true h s = (h', s') ->
  agree h h' [] /\ (forall a, In a (owned s') -> (length h <= a < length h')%nat).
Proof.
  intros h' s' E. unfold set_copy in E. apply copy_fold_local in E as [A O]. split; [exact A|].
  intros a I. destruct (O a I) as [[]|R]. exact R.
Qed.

(* within one set, buckets keep distinct arrays *)
Lemma add_nodup h s v h' s' : set_add hash h s v = (h', s') -> NoDup (owned s) ->
  (forall a, In a (owned s) -> (a < length h)%nat) -> NoDup (owned s').
Proof.
  unfold set_add. destruct (bucket_of (hash v) s) as [b|] eqn:B.
  - destruct (mem v (elems h b)); [intros E; injection E as <- <-; auto|].
    pose proof (append1_agree h b v) as P. destruct (append1 h b v) as [h1 b1]. destruct P as [A O].
    intros E N Bd. injection E as <- <-. destruct O as [O|[O L]].
    + rewrite (put_same _ _ _ b B O). exact N.
    + apply put_fresh_nodup; [exact N|]. rewrite O. intros I. apply Bd in I. lia.
  - pose proof (append1_agree (h ++ [[0]]) {| s_arr := length h; s_len := 0; s_cap := 1 |} v) as P.
    destruct (append1 (h ++ [[0]]) {| s_arr := length h; s_len := 0; s_cap := 1 |} v) as [h2 b1]. destruct P as [A O].
    cbn [s_arr] in O. intros E N Bd. injection E as <- <-.
    apply put_fresh_nodup; [exact N|]. intros I. apply Bd in I.
    destruct O as [O|[O L]]; rewrite O in I; [lia|rewrite app_length in I; cbn in I; lia].
Qed.
Lemma remove_nodup h s v h' s' : set_remove hash h s v = (h', s') -> NoDup (owned s) ->
  (forall a, In a (owned s) -> (a < length h)%nat) -> NoDup (owned s').
Proof.
  unfold set_remove. destruct (bucket_of (hash v) s) as [b|] eqn:B; [|intros E; injection E as <- <-; auto].
  destruct (mem v (elems h b)); [|intros E; injection E as <- <-; auto].
  destruct (remove_first v (elems h b)) as [|x l].
  - intros E N _. injection E as <- <-. apply del_nodup, N.
  - unfold fresh. intros E N Bd. injection E as <- <-. apply put_fresh_nodup; [exact N|]. cbn [s_arr]. intros I. apply Bd in I. lia.
Qed.
Lemma copy_fold_nodup l : forall h out h' s',
  fold_left (fun acc kb => let '(h0, out) := acc in
                           let '(h1, b1) := fresh h0 (elems h0 (snd kb)) in (h1, out ++ [(fst kb, b1)])) l (h, out) = (h', s') ->
  NoDup (owned out) -> (forall a, In a (owned out) -> (a < length h)%nat) -> NoDup (owned s').
Proof.
  induction l as [|kb l IH]; intros h out h' s' E N Bd.
  - cbn in E. injection E as <- <-. exact N.
  - cbn [fold_left] in E. unfold fresh in E at 2. apply IH in E; [exact E| |].
    + unfold owned. rewrite map_app. apply nodup_app; [exact N|cbn; constructor; [intros []|constructor]|].
      intros x Ia [<-|[]]. cbn [snd s_arr] in Ia. apply Bd in Ia. lia.
    + intros a I. unfold owned in I. rewrite map_app in I. rewrite app_length. cbn.
      apply in_app_or in I as [I|[<-|[]]]; [apply Bd in I; lia|cbn; lia].
Qed.

(* ---------- the invariant over histories and the isolation theorem ---------- *)
Definition all_owned (sets : list gset) : list nat := flat_map owned sets.
Definition Inv (st : state) : Prop :=
  NoDup (all_owned (st_sets st)) /\ Forall (fun a => (a < length (st_heap st))%nat) (all_owned (st_sets st)).

Lemma view_agree h h' s : (forall a, In a (owned s) -> cells h' a = cells h a) -> view h' s = view h s.
Proof.
  intros H. unfold view.
  assert (G : forall acc, fold_left (fun acc kb => insert_by_hash (fst kb, elems h' (snd kb)) acc) s acc =
                          fold_left (fun acc kb => insert_by_hash (fst kb, elems h (snd kb)) acc) s acc).
  { induction s as [|kb s IH]; intros acc; [reflexivity|]. cbn [fold_left].
    assert (E : elems h' (snd kb) = elems h (snd kb)).
    { unfold elems. rewrite H; [reflexivity|]. left. reflexivity. }
    rewrite E. apply IH. intros a I. apply H. right. exact I. }
  apply G.
Qed.

Lemma in_all_owned sets j s a : nth_error sets j = Some s -> In a (owned s) -> In a (all_owned sets).
Proof.
  revert j. induction sets as [|s0 sets IH]; intros j E I; [destruct j; discriminate|].
  destruct j; cbn in E.
  - injection E as ->. apply in_or_app. left. exact I.
  - apply in_or_app. right. apply (IH j); assumption.
Qed.

Lemma nodup_app_r {A} (a b : list A) : NoDup (a ++ b) -> NoDup b.
Proof. induction a as [|x a IH]; intros H; [exact H|]. cbn in H. apply NoDup_cons_iff in H as [_ H]. apply IH, H. Qed.
Lemma nodup_app_disj {A} (a b : list A) x : NoDup (a ++ b) -> In x a -> In x b -> False.
Proof.
  induction a as [|y a IH]; intros H Ia Ib; [destruct Ia|]. cbn in H. apply NoDup_cons_iff in H as [H1 H2].
  destruct Ia as [->|Ia]; [apply H1; apply in_or_app; right; exact Ib|apply IH; assumption].
Qed.

Lemma disjoint_owned sets i j si sj a : NoDup (all_owned sets) -> i <> j ->
  nth_error sets i = Some si -> nth_error sets j = Some sj -> In a (owned si) -> In a (owned sj) -> False.
Proof.
  revert i j. induction sets as [|s0 sets IH]; intros i j N D Ei Ej Ii Ij; [destruct i; discriminate|].
  cbn [all_owned flat_map] in N.
  destruct i, j; cbn in Ei, Ej; try congruence.
  - injection Ei as ->. apply (nodup_app_disj _ _ a N Ii). apply (in_all_owned _ j sj); assumption.
  - injection Ej as ->. apply (nodup_app_disj _ _ a N Ij). apply (in_all_owned _ i si); assumption.
  - apply (IH i j); try assumption; [apply (nodup_app_r _ _ N)|congruence].
Qed.

(* an Add or Remove on set i leaves every other set's view as it was; a Copy changes no existing
   set's view, and the copy reports what its original reports *)
Theorem isolation st o : Inv st ->
  forall j sj, nth_error (st_sets st) j = Some sj ->
  (match o with OpAdd i _ | OpRemove i _ => i <> j | OpCopy _ => True end) ->
  nth_error (st_sets (step hash true st o)) j = Some sj /\
  view (st_heap (step hash true st o)) sj = view (st_heap st) sj.
Proof.
  intros [N B] j sj Ej T.
  assert (Bj : forall a, In a (owned sj) -> (a < length (st_heap st))%nat).
  { intros a I. rewrite Forall_forall in B. exact (B a (in_all_owned _ j sj a Ej I)). }
  destruct o as [i v|i v|i]; cbn [step].
  - destruct (nth_error (st_sets st) i) as [si|] eqn:Ei; [|split; [exact Ej|reflexivity]].
    destruct (set_add hash (st_heap st) si v) as [h' s'] eqn:E. cbn [st_heap st_sets].
    apply add_local in E as [A _]. split.
    + clear - Ej T. revert i j T Ej. induction (st_sets st) as [|x l IH]; intros i j T Ej; [destruct j; discriminate|].
      destruct i, j; cbn in *; try congruence. apply IH; [congruence|exact Ej].
    + apply view_agree. intros a I. destruct A as [_ A]. apply A; [apply Bj; exact I|].
      intros I2. apply (disjoint_owned _ i j si sj a N T Ei Ej I2 I).
  - destruct (nth_error (st_sets st) i) as [si|] eqn:Ei; [|split; [exact Ej|reflexivity]].
    destruct (set_remove hash (st_heap st) si v) as [h' s'] eqn:E. cbn [st_heap st_sets].
    apply remove_local in E as [A _]. split.
    + clear - Ej T. revert i j T Ej. induction (st_sets st) as [|x l IH]; intros i j T Ej; [destruct j; discriminate|].
      destruct i, j; cbn in *; try congruence. apply IH; [congruence|exact Ej].
    + apply view_agree. intros a I. destruct A as [_ A]. apply A; [apply Bj; exact I|].
      intros I2. apply (disjoint_owned _ i j si sj a N T Ei Ej I2 I).
  - destruct (nth_error (st_sets st) i) as [si|] eqn:Ei; [|split; [exact Ej|reflexivity]].
    destruct (set_copy true (st_heap st) si) as [h' s'] eqn:E. cbn [st_heap st_sets].
    apply copy_local in E as [A _]. split.
    + rewrite nth_error_app1; [exact Ej|]. apply nth_error_Some. congruence.
    + apply view_agree. intros a I. destruct A as [_ A]. apply A; [apply Bj; exact I|]. intros [].
Qed.

Lemma in_all_owned_set_nth sets i s' a : In a (all_owned (set_nth i s' sets)) -> In a (all_owned sets) \/ In a (owned s').
Proof.
  revert i. induction sets as [|s0 sets IH]; intros i I; [destruct i; destruct I|].
  destruct i; cbn [set_nth all_owned flat_map] in I; apply in_app_or in I as [I|I].
  - right. exact I.
  - left. apply in_or_app. right. exact I.
  - left. apply in_or_app. left. exact I.
  - destruct (IH i I) as [J|J]; [left; apply in_or_app; right; exact J|right; exact J].
Qed.

Lemma nodup_set_nth sets i si s' : nth_error sets i = Some si -> NoDup (all_owned sets) -> NoDup (owned s') ->
  (forall a, In a (owned s') -> In a (owned si) \/ ~ In a (all_owned sets)) -> NoDup (all_owned (set_nth i s' sets)).
Proof.
  revert i. induction sets as [|s0 sets IH]; intros i E N N' F; [destruct i; discriminate|].
  cbn [all_owned flat_map] in N. destruct i; cbn in E.
  - injection E as ->. cbn [set_nth all_owned flat_map]. apply nodup_app; [exact N'|apply (nodup_app_r _ _ N)|].
    intros x Ia Ib. destruct (F x Ia) as [J|J]; [apply (nodup_app_disj _ _ x N J Ib)|apply J; apply in_or_app; right; exact Ib].
  - cbn [set_nth all_owned flat_map]. apply nodup_app.
    + clear - N. induction (owned s0) as [|x l IHl]; [constructor|]. cbn in N. apply NoDup_cons_iff in N as [N1 N2].
      constructor; [intros I; apply N1; apply in_or_app; left; exact I|apply IHl; exact N2].
    + apply (IH i E (nodup_app_r _ _ N) N'). intros a I. destruct (F a I) as [J|J]; [left; exact J|right].
      intros K. apply J. apply in_or_app. right. exact K.
    + intros x Ia Ib. apply in_all_owned_set_nth in Ib as [Ib|Ib].
      * apply (nodup_app_disj _ _ x N Ia Ib).
      * destruct (F x Ib) as [J|J].
        -- apply (nodup_app_disj _ _ x N Ia). apply (in_all_owned _ i si); assumption.
        -- apply J. apply in_or_app. left. exact Ia.
Qed.

Lemma all_owned_app sets s : all_owned (sets ++ [s]) = all_owned sets ++ owned s.
Proof. unfold all_owned. rewrite flat_map_app. cbn. rewrite app_nil_r. reflexivity. Qed.

(* the invariant holds initially and is kept by every operation: in every reachable state no two
   buckets, of the same set or of different sets, share an array *)
Theorem inv_init : Inv {| st_heap := []; st_sets := [[]] |}.
Proof. split; cbn; constructor. Qed.

Theorem inv_step st o : Inv st -> Inv (step hash true st o).
Proof.
  intros [N B0]. rewrite Forall_forall in B0.
  assert (B : forall a, In a (all_owned (st_sets st)) -> (a < length (st_heap st))%nat) by (intros a I; exact (B0 a I)). clear B0.
  destruct o as [i v|i v|i]; cbn [step]; (destruct (nth_error (st_sets st) i) as [si|] eqn:Ei; [|split; [exact N|rewrite Forall_forall; intros a I; exact (B a I)]]).
  - destruct (set_add hash (st_heap st) si v) as [h' s'] eqn:E. cbn [st_heap st_sets].
    assert (Bi : forall a, In a (owned si) -> (a < length (st_heap st))%nat) by (intros a I; apply B; apply (in_all_owned _ i si); assumption).
    assert (Ni : NoDup (owned si)).
    { clear - N Ei. revert i Ei. induction (st_sets st) as [|s0 l IH]; intros i Ei; [destruct i; discriminate|].
      cbn [all_owned flat_map] in N. destruct i; cbn in Ei.
      - injection Ei as ->. clear - N. induction (owned si) as [|x l' IHl]; [constructor|]. cbn in N. apply NoDup_cons_iff in N as [N1 N2].
        constructor; [intros I; apply N1; apply in_or_app; left; exact I|apply IHl; exact N2].
      - apply (IH (nodup_app_r _ _ N) i Ei). }
    pose proof (add_nodup _ _ _ _ _ E Ni Bi) as N'. apply add_local in E as [[L A] F].
    unfold Inv. cbn [st_heap st_sets]. split.
    + apply (nodup_set_nth _ i si); try assumption. intros a I. destruct (F a I) as [J|J]; [left; exact J|right].
      intros K. apply B in K. lia.
    + rewrite Forall_forall. intros a I. cbn beta. apply in_all_owned_set_nth in I as [I|I]; [apply B in I; lia|].
      destruct (F a I) as [J|J]; [apply Bi in J; lia|lia].
  - destruct (set_remove hash (st_heap st) si v) as [h' s'] eqn:E. cbn [st_heap st_sets].
    assert (Bi : forall a, In a (owned si) -> (a < length (st_heap st))%nat) by (intros a I; apply B; apply (in_all_owned _ i si); assumption).
    assert (Ni : NoDup (owned si)).
    { clear - N Ei. revert i Ei. induction (st_sets st) as [|s0 l IH]; intros i Ei; [destruct i; discriminate|].
      cbn [all_owned flat_map] in N. destruct i; cbn in Ei.
      - injection Ei as ->. clear - N. induction (owned si) as [|x l' IHl]; [constructor|]. cbn in N. apply NoDup_cons_iff in N as [N1 N2].
        constructor; [intros I; apply N1; apply in_or_app; left; exact I|apply IHl; exact N2].
      - apply (IH (nodup_app_r _ _ N) i Ei). }
    pose proof (remove_nodup _ _ _ _ _ E Ni Bi) as N'. apply remove_local in E as [[L A] F].
    unfold Inv. cbn [st_heap st_sets]. split.
    + apply (nodup_set_nth _ i si); try assumption. intros a I. destruct (F a I) as [J|J]; [left; exact J|right].
      intros K. apply B in K. lia.
    + rewrite Forall_forall. intros a I. cbn beta. apply in_all_owned_set_nth in I as [I|I]; [apply B in I; lia|].
      destruct (F a I) as [J|J]; [apply Bi in J; lia|lia].
  - destruct (set_copy true (st_heap st) si) as [h' s'] eqn:E. cbn [st_heap st_sets].
    assert (N' : NoDup (owned s')).
    { unfold set_copy in E. apply (copy_fold_nodup _ _ _ _ _ E); [constructor|intros a []]. }
    apply copy_local in E as [[L A] F]. unfold Inv. cbn [st_heap st_sets]. rewrite all_owned_app. split.
    + apply nodup_app; [exact N|exact N'|]. intros x Ia Ib. apply B in Ia. apply F in Ib. lia.
    + rewrite Forall_forall. intros a I. cbn beta. apply in_app_or in I as [I|I]; [apply B in I; lia|apply F in I; lia].
Qed.

Theorem inv_run ops : Inv (run hash true ops).
Proof.
  unfold run. generalize inv_init. generalize {| st_heap := []; st_sets := [[]] |}.
  induction ops as [|o ops IH]; intros st I; [exact I|]. cbn [fold_left]. apply IH. apply inv_step. exact I.
Qed.

(* over every history: whatever was done before, the next Add or Remove on one set changes no other
   set's reported members, and a Copy changes no existing set *)
Theorem history_isolation ops o : forall j sj,
  nth_error (st_sets (run hash true ops)) j = Some sj ->
  (match o with OpAdd i _ | OpRemove i _ => i <> j | OpCopy _ => True end) ->
  nth_error (st_sets (step hash true (run hash true ops) o)) j = Some sj /\
  view (st_heap (step hash true (run hash true ops) o)) sj = view (st_heap (run hash true ops)) sj.
Proof. intros j sj. apply isolation. apply inv_run. Qed.
End WithHash.
