(* WalkMembers.v — C06 / C19: every member Walk reports of a value of the structural fragment is again a value of
   the fragment with a well-formed annotation-free type, hence well-formed (C06's traversal clause), at every depth. *)
From Coq Require Import Lia.
From Cty Require Import Base Ty BigFloat Value Hash Ops Refine Wf Json Walk BaseProofs TyProofs WfProofs OpsProofs FuncProofs JsonProofs MsgpackProofs DecodeProofs JsonRoundTrip WalkProofs WalkIdentity WalkResolve WfRT RawRefl WalkCount.
Open Scope Z_scope.

Lemma has_opt_obj_attr attrs kt : has_opt (TObj attrs []) = false -> In kt attrs -> has_opt (snd kt) = false.
Proof.
  cbn [has_opt]. intros H Hin. cbn [orb] in H.
  induction attrs as [|a attrs IH]; [contradiction|]. apply orb_false_iff in H as [H1 H2].
  destruct Hin as [<-|Hin]; [exact H1|apply IH; assumption].
Qed.

Section WalkMembers.
  Variable norm : str -> str.
  Variable unk : bool.

  Definition good (v : value) : Prop := RT norm unk (vty v) (vp v) /\ wf_ty (vty v) = true /\ has_opt (vty v) = false.

  Lemma go_good f pre (ms : list (step * value)) :
    (forall sm, In sm ms -> forall pre' l', walk_at f pre' (snd sm) = Ok l' -> Forall (fun qx => good (snd qx)) l') ->
    forall rest,
    (fix go (l : list (step * value)) : res (list (path * value)) :=
       match l with
       | [] => Ok []
       | sm :: l' => do a <- walk_at f (pre ++ [fst sm]) (snd sm); do b <- go l'; Ok (a ++ b)
       end) ms = Ok rest -> Forall (fun qx => good (snd qx)) rest.
  Proof.
    induction ms as [|sm ms IH]; intros H rest E; [injection E as <-; constructor|].
    destruct (walk_at f (pre ++ [fst sm]) (snd sm)) as [a| | |] eqn:Ea; cbn [bind] in E; try discriminate E.
    match type of E with (do b <- ?g; _) = _ => destruct g as [b| | |] eqn:Eb end; cbn [bind] in E; try discriminate E.
    injection E as <-. apply Forall_app. split; [exact (H sm (or_introl eq_refl) _ a Ea)|].
    apply IH; [intros sm0 Hin; apply H; right; exact Hin|reflexivity].
  Qed.

  Theorem walk_members_good_at : forall n t p, RT norm unk t p -> wf_ty t = true -> has_opt t = false -> (pdepth p <= n)%nat ->
    forall f pre l, walk_at f pre (V t p) = Ok l -> Forall (fun qx => good (snd qx)) l.
  Proof.
    induction n as [|n IH]; intros t p R W Ho D f pre l E.
    { destruct p; cbn [pdepth] in D; lia. }
    destruct f as [|f]; [discriminate E|]. cbn [walk_at] in E.
    assert (Root : good (V t p)) by (repeat split; assumption).
    inversion R as [t0 Hk Hd|t0|b|s Hs|e l0 We Fl|es l0 F2|e m We Sm Nm Fm|attrs m Sa Na F2]; subst;
      cbn [is_null is_known vp top_payload negb orb unmark_force unmark fst members_of vty bind] in E;
      try (injection E as <-; constructor; [exact Root|constructor]).
    - (* list *)
      match type of E with (do rest <- ?g; _) = _ => destruct g as [rest| | |] eqn:Er end; cbn [bind] in E; try discriminate E.
      injection E as <-. constructor; [exact Root|]. eapply go_good; [|exact Er].
      intros sm Hin pre' l' E'. apply in_map_iff in Hin as ([i x] & <- & Hin). cbn [snd] in *.
      apply in_combine_r in Hin.
      eapply IH; [rewrite Forall_forall in Fl; apply Fl; exact Hin|exact We|exact Ho| |exact E'].
      assert (Dm : (S (fold_right (fun y k => Nat.max (pdepth y) k) 0 l0) <= S n)%nat) by exact D.
      pose proof (depth_in_list l0 x Hin). lia.
    - (* tuple *)
      match type of E with (do rest <- ?g; _) = _ => destruct g as [rest| | |] eqn:Er end; cbn [bind] in E; try discriminate E.
      injection E as <-. constructor; [exact Root|]. eapply go_good; [|exact Er].
      intros sm Hin pre' l' E'. apply in_map_iff in Hin as ([i [te x]] & <- & Hin). cbn [snd] in *.
      apply in_combine_r in Hin.
      assert (Rx : RT norm unk te x /\ In x l0 /\ wf_ty te = true /\ has_opt te = false).
      { cbn [wf_ty has_opt] in W, Ho. clear -F2 Hin W Ho. induction F2 as [|a b la lb Rab _ IHf]; [contradiction|].
        cbn [forallb existsb] in W, Ho. apply andb_true_iff in W as [W1 W2]. apply orb_false_iff in Ho as [H1 H2].
        destruct Hin as [E|Hin]; [injection E as <- <-; repeat split; [exact Rab|left; reflexivity|exact W1|exact H1]|].
        destruct (IHf H2 W2 Hin) as (R1 & I1 & W3 & H3). repeat split; [exact R1|right; exact I1|exact W3|exact H3]. }
      destruct Rx as (Rx & Ix & Wx & Hx).
      eapply IH; [exact Rx|exact Wx|exact Hx| |exact E'].
      assert (Dm : (S (fold_right (fun y k => Nat.max (pdepth y) k) 0 l0) <= S n)%nat) by exact D.
      pose proof (depth_in_list l0 x Ix). lia.
    - (* map *)
      match type of E with (do rest <- ?g; _) = _ => destruct g as [rest| | |] eqn:Er end; cbn [bind] in E; try discriminate E.
      injection E as <-. constructor; [exact Root|]. eapply go_good; [|exact Er].
      intros sm Hin pre' l' E'. apply in_map_iff in Hin as (kv & <- & Hin). cbn [snd] in *.
      eapply IH; [rewrite Forall_forall in Fm; apply Fm; exact Hin|exact We|exact Ho| |exact E'].
      assert (Dm : (S ((fix go (l : list (str * payload)) : nat :=
                          match l with [] => 0%nat | kv :: l' => Nat.max (pdepth (snd kv)) (go l') end) m) <= S n)%nat) by exact D.
      pose proof (depth_in_map m kv Hin). lia.
    - (* object *)
      match type of E with (do rest <- ?g; _) = _ => destruct g as [rest| | |] eqn:Er end; cbn [bind] in E; try discriminate E.
      injection E as <-. constructor; [exact Root|]. eapply go_good; [|exact Er].
      intros sm Hin pre' l' E'. apply in_map_iff in Hin as (kv & <- & Hin). cbn [snd] in *.
      destruct (obj_member_ty (RT norm unk) attrs m Sa F2 kv Hin) as (ta & La & Rk). rewrite La in E'.
      assert (Hkt : In (fst kv, ta) attrs) by (apply lookup_In; exact La).
      eapply IH; [exact Rk|exact (wf_ty_obj_attr attrs [] (fst kv, ta) W Hkt)|exact (has_opt_obj_attr attrs (fst kv, ta) Ho Hkt)| |exact E'].
      assert (Dm : (S ((fix go (l : list (str * payload)) : nat :=
                          match l with [] => 0%nat | kv :: l' => Nat.max (pdepth (snd kv)) (go l') end) m) <= S n)%nat) by exact D.
      pose proof (depth_in_map m kv Hin). lia.
  Qed.

  Theorem walk_members_wf t p l : RT norm unk t p -> wf_ty t = true -> has_opt t = false -> walk (V t p) = Ok l ->
    forall q x, In (q, x) l -> wf_value norm x = true.
  Proof.
    intros R W Ho E q x Hin. unfold walk in E.
    pose proof (walk_members_good_at (pdepth p) t p R W Ho (le_n _) _ _ l E) as F.
    rewrite Forall_forall in F. destruct (F (q, x) Hin) as (Rx & Wx & Hx). cbn [snd] in *.
    destruct x as [tx px]. cbn [vty vp] in *. apply (RT_wf_value norm unk); assumption.
  Qed.
End WalkMembers.
