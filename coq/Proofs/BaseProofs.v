(* BaseProofs.v — lemmas about byte strings and key-sorted lists *)
From Coq Require Import Lia.
From Cty Require Import Base.

Lemma str_eqb_eq a b : str_eqb a b = true <-> a = b.
Proof.
  revert b; induction a as [|x a IH]; intros [|y b]; simpl; split; try congruence; try discriminate.
  - rewrite andb_true_iff, N.eqb_eq, IH. intros [-> ->]; reflexivity.
  - intros H; injection H as -> ->. rewrite andb_true_iff, N.eqb_eq, IH; auto.
Qed.
Lemma str_eqb_refl a : str_eqb a a = true. Proof. apply str_eqb_eq; reflexivity. Qed.
Lemma str_eqb_neq a b : str_eqb a b = false <-> a <> b.
Proof. rewrite <- str_eqb_eq. destruct (str_eqb a b); split; congruence. Qed.

Lemma str_ltb_irrefl a : str_ltb a a = false.
Proof. induction a as [|x a IH]; simpl; auto. rewrite N.ltb_irrefl, N.eqb_refl; auto. Qed.
Lemma str_ltb_trans a b c : str_ltb a b = true -> str_ltb b c = true -> str_ltb a c = true.
Proof.
  revert b c; induction a as [|x a IH]; intros [|y b] [|z c]; simpl; try congruence; auto.
  destruct (N.ltb_spec x y), (N.ltb_spec y z), (N.ltb_spec x z); try lia; auto;
  destruct (N.eqb_spec x y), (N.eqb_spec y z), (N.eqb_spec x z); try lia; try congruence; eauto.
Qed.
Lemma str_ltb_neq a b : str_ltb a b = true -> a <> b.
Proof. intros H ->. rewrite str_ltb_irrefl in H; discriminate. Qed.

(* ---------- sorted-list facts ---------- *)
Lemma sorted_keys_tail a l : sorted_keys (a :: l) = true -> sorted_keys l = true.
Proof. simpl. destruct l; auto. rewrite andb_true_iff; tauto. Qed.

Lemma sorted_keys_head_lt a l : sorted_keys (a :: l) = true -> forall b, In b l -> str_ltb a b = true.
Proof.
  revert a; induction l as [|c l IH]; intros a H b Hb; [inversion Hb|].
  simpl in H. apply andb_true_iff in H as [Hac Hs].
  destruct Hb as [<-|Hb]; auto.
  eapply str_ltb_trans; eauto.
Qed.

Lemma mem_In k l : mem k l = true <-> In k l.
Proof.
  unfold mem. rewrite existsb_exists. split.
  - intros (x & Hx & E). apply str_eqb_eq in E; subst; auto.
  - intros H. exists k. split; auto. apply str_eqb_refl.
Qed.

Lemma lookup_In {A} k (l : list (str * A)) v : lookup k l = Some v -> In (k, v) l.
Proof.
  induction l as [|[k' v'] l IH]; simpl; [discriminate|].
  destruct (str_eqb k k') eqn:E.
  - apply str_eqb_eq in E. intros H; injection H as <-. subst; auto.
  - auto.
Qed.

(* two strictly sorted key lists of equal length, the first included in the second, are equal *)
Lemma sorted_incl_eq (l1 l2 : list str) :
  sorted_keys l1 = true -> sorted_keys l2 = true -> length l1 = length l2 ->
  (forall k, In k l1 -> In k l2) -> l1 = l2.
Proof.
  revert l2; induction l1 as [|a l1 IH]; intros [|b l2] S1 S2 L I; simpl in L; try discriminate; auto.
  assert (Hab : a = b).
  { destruct (I a (or_introl eq_refl)) as [<-|Ha]; auto.
    (* a in l2, so b < a; every element of l1 is >= a > b, but then b not in a::l1;
       count argument: l1 (n elems, all > a > b) included in b::l2 minus ... use pigeonhole via IH on swapped roles *)
    exfalso.
    pose proof (sorted_keys_head_lt _ _ S2 a Ha) as Hba.
    (* all of a::l1 lies in l2 (none equals b since all > b) *)
    assert (I' : forall k, In k (a :: l1) -> In k l2).
    { intros k Hk. destruct (I k Hk) as [<-|]; auto.
      exfalso. destruct Hk as [<-|Hk].
      - rewrite str_ltb_irrefl in Hba; discriminate.
      - pose proof (sorted_keys_head_lt _ _ S1 b Hk) as Hab'.
        pose proof (str_ltb_trans _ _ _ Hba Hab') as C. rewrite str_ltb_irrefl in C; discriminate. }
    (* a::l1 has no duplicates and length = S (length l2): contradiction with NoDup_incl_length *)
    assert (ND : NoDup (a :: l1)).
    { clear -S1. revert S1. generalize (a :: l1) as l. induction l as [|x l IHl]; intros S; constructor.
      - intros Hin. pose proof (sorted_keys_head_lt _ _ S x Hin) as C. rewrite str_ltb_irrefl in C; discriminate.
      - apply IHl. eapply sorted_keys_tail; eauto. }
    pose proof (NoDup_incl_length ND I') as Hlen. simpl in Hlen. injection L as L. lia. }
  subst b. f_equal. apply IH.
  - eapply sorted_keys_tail; eauto.
  - eapply sorted_keys_tail; eauto.
  - injection L; auto.
  - intros k Hk. destruct (I k (or_intror Hk)) as [<-|]; auto.
    exfalso. pose proof (sorted_keys_head_lt _ _ S1 a Hk) as C. rewrite str_ltb_irrefl in C; discriminate.
Qed.

Lemma sorted_NoDup l : sorted_keys l = true -> NoDup l.
Proof.
  induction l as [|x l IHl]; intros S; constructor.
  - intros Hin. pose proof (sorted_keys_head_lt _ _ S x Hin) as C. rewrite str_ltb_irrefl in C; discriminate.
  - apply IHl. eapply sorted_keys_tail; eauto.
Qed.

(* strictly sorted lists with the same members are equal *)
Lemma sorted_ext_eq (l1 l2 : list str) :
  sorted_keys l1 = true -> sorted_keys l2 = true -> (forall k, In k l1 <-> In k l2) -> l1 = l2.
Proof.
  intros S1 S2 E.
  assert (L : length l1 = length l2).
  { apply Nat.le_antisymm; apply NoDup_incl_length; auto using sorted_NoDup; intros k; apply E. }
  apply sorted_incl_eq; auto. intros k; apply E.
Qed.

Lemma lookup_sorted_self {A} (l : list (str * A)) kv :
  NoDup (map fst l) -> In kv l -> lookup (fst kv) l = Some (snd kv).
Proof.
  induction l as [|[k v] l IH]; intros ND Hin; [inversion Hin|].
  simpl in *. inversion ND as [|? ? Hnot ND']; subst.
  destruct Hin as [<-|Hin].
  - simpl. rewrite str_eqb_refl. reflexivity.
  - destruct (str_eqb (fst kv) k) eqn:E.
    + apply str_eqb_eq in E. exfalso. apply Hnot. rewrite <- E. apply in_map; auto.
    + auto.
Qed.

Lemma pairs_eq_of_keys {A} (l1 l2 : list (str * A)) :
  NoDup (map fst l2) -> map fst l1 = map fst l2 -> (forall kv, In kv l1 -> In kv l2) -> l1 = l2.
Proof.
  revert l2; induction l1 as [|[k v] l1 IH]; intros [|[k2 v2] l2] ND K I; simpl in K; try discriminate; auto.
  injection K as -> K. inversion ND as [|? ? Hnot ND']; subst.
  assert (v = v2).
  { destruct (I (k2, v) (or_introl eq_refl)) as [E|Hin]; [congruence|].
    exfalso. apply Hnot. change k2 with (fst (k2, v)). apply in_map; auto. }
  subst. f_equal. apply IH; auto.
  intros kv Hin. destruct (I kv (or_intror Hin)) as [<-|]; auto.
  exfalso. apply Hnot. rewrite <- K. change k2 with (fst (k2, v2)). apply in_map; auto.
Qed.

(* ---------- more order facts ---------- *)
Lemma str_ltb_asym a b : str_ltb a b = true -> str_ltb b a = false.
Proof.
  intros H. destruct (str_ltb b a) eqn:E; auto.
  pose proof (str_ltb_trans _ _ _ H E) as C. rewrite str_ltb_irrefl in C. discriminate.
Qed.

Lemma str_ltb_total a b : str_ltb a b = false -> str_ltb b a = false -> a = b.
Proof.
  revert b; induction a as [|x a IH]; intros [|y b]; simpl; try congruence.
  destruct (N.ltb_spec x y), (N.ltb_spec y x); try congruence; try lia.
  assert (x = y) by lia. subst. rewrite N.eqb_refl. intros H1 H2. f_equal. auto.
Qed.

Lemma sorted_keys_app_lt a k b : sorted_keys (a ++ k :: b) = true -> forall x, In x a -> str_ltb x k = true.
Proof.
  induction a as [|y a IH]; intros S x Hx; [inversion Hx|].
  destruct Hx as [<-|Hx].
  - apply (sorted_keys_head_lt y (a ++ k :: b)); auto. apply in_or_app. right. left. reflexivity.
  - apply IH; auto. eapply sorted_keys_tail. exact S.
Qed.

Lemma kv_insert_last {A} k (v : A) acc :
  (forall x, In x (keys acc) -> str_ltb x k = true) -> kv_insert k v acc = acc ++ [(k, v)].
Proof.
  induction acc as [|[k' v'] acc IH]; intros H; simpl; auto.
  assert (Hk : str_ltb k' k = true) by (apply H; left; reflexivity).
  rewrite (str_ltb_asym _ _ Hk).
  destruct (str_eqb k k') eqn:E.
  - apply str_eqb_eq in E. subst. rewrite str_ltb_irrefl in Hk. discriminate.
  - f_equal. apply IH. intros x Hx. apply H. right. exact Hx.
Qed.

Lemma set_insert_last k acc :
  (forall x, In x acc -> str_ltb x k = true) -> set_insert k acc = acc ++ [k].
Proof.
  induction acc as [|k' acc IH]; intros H; simpl; auto.
  assert (Hk : str_ltb k' k = true) by (apply H; left; reflexivity).
  rewrite (str_ltb_asym _ _ Hk).
  destruct (str_eqb k k') eqn:E.
  - apply str_eqb_eq in E. subst. rewrite str_ltb_irrefl in Hk. discriminate.
  - f_equal. apply IH. intros x Hx. apply H. right. exact Hx.
Qed.

Lemma fold_kv_insert_sorted {A} (norm : str -> str) (l acc : list (str * A)) :
  sorted_keys (keys (acc ++ l)) = true ->
  (forall kv, In kv l -> norm (fst kv) = fst kv) ->
  fold_left (fun acc kv => kv_insert (norm (fst kv)) (snd kv) acc) l acc = acc ++ l.
Proof.
  revert acc; induction l as [|[k v] l IH]; intros acc S Hn; simpl.
  - rewrite app_nil_r. reflexivity.
  - pose proof (Hn (k, v) (or_introl eq_refl)) as Hk. simpl in Hk. rewrite Hk.
    rewrite kv_insert_last.
    + rewrite IH.
      * rewrite <- app_assoc. reflexivity.
      * rewrite <- app_assoc. exact S.
      * intros kv Hkv. apply Hn. right. exact Hkv.
    + unfold keys in S. rewrite map_app in S. simpl in S.
      apply (sorted_keys_app_lt _ _ _ S).
Qed.

Lemma fold_set_insert_sorted (norm : str -> str) (l acc : list str) :
  sorted_keys (acc ++ l) = true ->
  (forall k, In k l -> norm k = k) ->
  fold_left (fun acc k => set_insert (norm k) acc) l acc = acc ++ l.
Proof.
  revert acc; induction l as [|k l IH]; intros acc S Hn; simpl.
  - rewrite app_nil_r. reflexivity.
  - rewrite (Hn k) by (left; reflexivity).
    rewrite set_insert_last.
    + rewrite IH.
      * rewrite <- app_assoc. reflexivity.
      * rewrite <- app_assoc. exact S.
      * intros k' Hk'. apply Hn. right. exact Hk'.
    + apply (sorted_keys_app_lt _ _ _ S).
Qed.
