(* MsgpackProofs.v — facts about the MessagePack codec model (C16, and the decoder-safety half of C17). *)
From Coq Require Import Lia.
From Cty Require Import Base Ty BigFloat Value Ops Refine Json Gocty Msgpack CmpProofs GoctyProofs.
Open Scope Z_scope.

(* a marked value is refused, whatever the constraint and the truncation oracle *)
Lemma mp_marshal_marked_top trunc f v t : is_marked v = true -> mp_marshal_at trunc (S f) v t = Err OtherError.
Proof. intros H. cbn [mp_marshal_at]. unfold mp_marshal_step. rewrite H. reflexivity. Qed.

Lemma mp_marshal_marked trunc v t : is_marked v = true -> mp_marshal trunc v t = Err OtherError.
Proof. intros H. unfold mp_marshal. apply mp_marshal_marked_top. exact H. Qed.

(* ... and so is a known list with a marked member: the member's own refusal propagates *)
Lemma go_list_marked trunc f ev e l :
  (exists x, In x l /\ is_marked (V ev x) = true) ->
  forall ms, (fix go (l : list payload) : res (list mp) :=
     match l with [] => Ok [] | x :: l' => do m <- mp_marshal_at trunc (S f) (V ev x) e; do r <- go l'; Ok (m :: r) end) l <> Ok ms.
Proof.
  induction l as [|x l IH]; intros [y [Hin Hm]] ms.
  - destruct Hin.
  - destruct Hin as [->|Hin].
    + rewrite (mp_marshal_marked_top trunc f (V ev y) e Hm). cbn [bind]. discriminate.
    + destruct (mp_marshal_at trunc (S f) (V ev x) e) as [m| | |]; cbn [bind]; try discriminate.
      specialize (IH (ex_intro _ y (conj Hin Hm))).
      match goal with |- context [bind ?g _] => destruct g as [r| | |] eqn:G end; cbn [bind]; try discriminate.
      exfalso. apply (IH r). reflexivity.
Qed.

(* number encoding selection: the integer form is chosen only for that very integer, and decodes to it *)
Theorem number_int_roundtrip x i : mp_of_number x = MInt i ->
  number_of_mp (mp_of_number x) = Ok (v_int i) /\ bf_numeq x (bf_of_int i) = true.
Proof.
  intros H. rewrite H. split; [reflexivity|].
  unfold mp_of_number in H. destruct x as [n p|n sig e p]; [discriminate|].
  destruct (bf_int64 (BFin n sig e p)) as [iv a] eqn:E.
  destruct (acc_eqb a Exact) eqn:A.
  - injection H as <-. apply (from_int_exact_value _ _ a E). destruct a; try discriminate; reflexivity.
  - destruct (f64_of (BFin n sig e p)) as [f a2]. destruct (acc_eqb a2 Exact && negb (bf_is_int (BFin n sig e p))); discriminate.
Qed.

(* infinities travel as float64 infinities and come back as infinities of the same sign *)
Theorem number_inf_roundtrip n p : number_of_mp (mp_of_number (BInf n p)) = Ok (v_num (BInf n 53)).
Proof. reflexivity. Qed.

(* an unknown of unknown type carries no refinements; an empty refinement list decodes to the plain unknown *)
Theorem unknown_empty_refs norm t : unknown_of_mp norm 0 [] t = Ok (v_unknown t).
Proof. reflexivity. Qed.
Theorem unknown_dyn_ignores_refs norm n items : unknown_of_mp norm n items TDyn = Ok (v_unknown TDyn).
Proof. destruct items; [destruct n|]; reflexivity. Qed.

(* the refinement replay never panics: every builder panic is turned into a decoding error *)
Theorem unknown_of_mp_no_panic norm n items t : unknown_of_mp norm n items t <> Panic.
Proof.
  unfold unknown_of_mp.
  destruct items as [|i items]; [destruct n|]; try discriminate;
    (destruct (is_dyn t); [discriminate|];
     match goal with |- context [replay_refs ?a ?b ?c ?d ?e] => destruct (replay_refs a b c d e) as [b0|e0| |] end;
     try discriminate; destruct (rb_new_value b0); discriminate).
Qed.

(* ---------- decoder safety on the model (C17) ---------- *)
Lemma bind_no_panic {A B} (r : res A) (k : A -> res B) :
  r <> Panic -> (forall a, k a <> Panic) -> bind r k <> Panic.
Proof. intros Hr Hk. destruct r; cbn [bind]; try discriminate; auto. Qed.

(* the implied type of any item tree: an error or a type, never a panic, whatever the fuel *)
Theorem mp_implied_no_panic norm f m : mp_implied_at norm f m <> Panic.
Proof.
  revert m. induction f as [|f IH]; intros m; [discriminate|].
  destruct m; cbn [mp_implied_at]; try discriminate.
  - apply bind_no_panic; [|discriminate].
    induction l as [|x l IHl]; [discriminate|].
    apply bind_no_panic; [apply IH|]. intros t. apply bind_no_panic; [exact IHl|discriminate].
  - apply bind_no_panic; [|discriminate].
    induction l as [|kv l IHl]; [discriminate|].
    destruct (dec_string (fst kv)); [|discriminate].
    apply bind_no_panic; [apply IH|]. intros t. apply bind_no_panic; [exact IHl|discriminate].
Qed.

Theorem mp_implied_type_no_panic norm ms : mp_implied_type norm ms <> Panic.
Proof.
  destruct ms as [|m [|m' ms]]; cbn [mp_implied_type]; try discriminate.
  - apply mp_implied_no_panic.
  - pose proof (mp_implied_no_panic norm (S (mp_size m)) m) as H.
    destruct (mp_implied_at norm (S (mp_size m)) m); try discriminate. contradiction.
Qed.

(* extension items that are not this library's refinement encoding, and broken items, are refused *)
Theorem mp_foreign_ext_refused norm jp f t : mp_unmarshal_at norm jp (S f) MExt t = Err OtherError.
Proof. reflexivity. Qed.
Theorem mp_bad_item_refused norm jp f t : mp_unmarshal_at norm jp (S f) MBad t = Err OtherError.
Proof. reflexivity. Qed.
