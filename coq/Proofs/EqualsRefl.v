(* EqualsRefl.v — C03: the equality operation answers True for a wholly known value of the structural fragment
   compared with itself, at every depth and for every visiting order of map keys and attribute names (nulls
   nested anywhere compare equal to themselves). *)
From Coq Require Import Lia.
From Cty Require Import Base Ty BigFloat Value Hash Ops Refine Wf Json Walk BaseProofs TyProofs WfProofs OpsProofs FuncProofs JsonProofs MsgpackProofs DecodeProofs JsonRoundTrip WalkProofs WalkIdentity WfRT RawRefl.
Open Scope Z_scope.

Section EqualsRefl.
  Variable norm : str -> str.

  Notation KRT := (RT norm false).

  (* no marks anywhere, and the type is known everywhere *)
  Definition clean (t : ty) (p : payload) : Prop := deep_marks p = [] /\ has_wholly_known_type t p = true.

  Lemma fold_marks_nil (l : list payload) : (forall x, In x l -> deep_marks x = []) ->
    fold_left (fun acc x => marks_union acc (deep_marks x)) l [] = [].
  Proof.
    induction l as [|x l IH]; intros H; [reflexivity|]. cbn [fold_left]. rewrite (H x (or_introl eq_refl)).
    cbn [marks_union fold_left]. apply IH. intros y Hy. apply H. right. exact Hy.
  Qed.

  Theorem KRT_clean_at : forall n t p, KRT t p -> (pdepth p <= n)%nat -> clean t p.
  Proof.
    induction n as [|n IH]; intros t p R D.
    { destruct p; cbn [pdepth] in D; lia. }
    inversion R as [t0 Hk Hd|t0|b|s Hs|e l We Fl|es l F2|e m We Sm Nm Fm|attrs m Sa Na F2]; subst; unfold clean;
      try discriminate; try (split; reflexivity).
    - (* list *)
      assert (Hall : forall x, In x l -> clean e x).
      { intros x Hin. apply IH; [rewrite Forall_forall in Fl; apply Fl; exact Hin|].
        assert (Dm : (S (fold_right (fun y k => Nat.max (pdepth y) k) 0 l) <= S n)%nat) by exact D.
        pose proof (depth_in_list l x Hin). lia. }
      cbn [deep_marks has_wholly_known_type]. split; [apply fold_marks_nil; intros x Hin; apply (Hall x Hin)|].
      apply forallb_forall. intros x Hin. apply (Hall x Hin).
    - (* tuple *)
      assert (Hall : Forall2 clean es l).
      { assert (Dall : forall x, In x l -> (pdepth x <= n)%nat).
        { intros x Hin. assert (Dm : (S (fold_right (fun y k => Nat.max (pdepth y) k) 0 l) <= S n)%nat) by exact D.
          pose proof (depth_in_list l x Hin). lia. }
        clear D R. induction F2 as [|te x es' l' Rx _ IHf]; constructor.
        - apply IH; [exact Rx|apply Dall; left; reflexivity].
        - apply IHf. intros y Hy. apply Dall. right. exact Hy. }
      cbn [deep_marks has_wholly_known_type]. split.
      + apply fold_marks_nil. intros x Hin. clear -Hall Hin. induction Hall as [|te y es' l' [C1 _] _ IHf]; [contradiction|].
        destruct Hin as [<-|Hin]; [exact C1|apply IHf; exact Hin].
      + clear -Hall. induction Hall as [|te x es' l' [_ C2] _ IHf]; [reflexivity|]. rewrite C2. exact IHf.
    - (* map *)
      assert (Hall : forall kv, In kv m -> clean e (snd kv)).
      { intros kv Hin. apply IH; [rewrite Forall_forall in Fm; apply Fm; exact Hin|].
        assert (Dm : (S ((fix go (l : list (str * payload)) : nat :=
                            match l with [] => 0%nat | kv :: l' => Nat.max (pdepth (snd kv)) (go l') end) m) <= S n)%nat) by exact D.
        pose proof (depth_in_map m kv Hin). lia. }
      cbn [deep_marks has_wholly_known_type]. clear -Hall. split.
      + enough (G : forall acc0, (fix go (l : list (str * payload)) (acc : list mark) : list mark :=
             match l with [] => acc | kv :: l' => go l' (marks_union acc (deep_marks (snd kv))) end) m acc0 = acc0) by apply G.
        induction m as [|kv m IHm]; intros acc0; [reflexivity|].
        destruct (Hall kv (or_introl eq_refl)) as [C1 _]. rewrite C1. cbn [marks_union fold_left].
        apply IHm. intros kv0 Hin. apply Hall. right. exact Hin.
      + induction m as [|kv m IHm]; [reflexivity|]. destruct (Hall kv (or_introl eq_refl)) as [_ C2]. rewrite C2.
        apply IHm. intros kv0 Hin. apply Hall. right. exact Hin.
    - (* object *)
      assert (Hall : forall kv, In kv m -> exists ta, lookup (fst kv) attrs = Some ta /\ clean ta (snd kv)).
      { intros kv Hin. destruct (obj_member_ty KRT attrs m Sa F2 kv Hin) as (ta & La & Rk).
        exists ta. split; [exact La|]. apply IH; [exact Rk|].
        assert (Dm : (S ((fix go (l : list (str * payload)) : nat :=
                            match l with [] => 0%nat | kv :: l' => Nat.max (pdepth (snd kv)) (go l') end) m) <= S n)%nat) by exact D.
        pose proof (depth_in_map m kv Hin). lia. }
      cbn [deep_marks has_wholly_known_type]. clear -Hall. split.
      + enough (G : forall acc0, (fix go (l : list (str * payload)) (acc : list mark) : list mark :=
             match l with [] => acc | kv :: l' => go l' (marks_union acc (deep_marks (snd kv))) end) m acc0 = acc0) by apply G.
        induction m as [|kv m IHm]; intros acc0; [reflexivity|].
        destruct (Hall kv (or_introl eq_refl)) as (ta & _ & [C1 _]). rewrite C1. cbn [marks_union fold_left].
        apply IHm. intros kv0 Hin. apply Hall. right. exact Hin.
      + induction m as [|kv m IHm]; [reflexivity|]. destruct (Hall kv (or_introl eq_refl)) as (ta & La & [_ C2]). rewrite La, C2.
        apply IHm. intros kv0 Hin. apply Hall. right. exact Hin.
  Qed.

  Variable order : list str -> list str.
  Hypothesis order_sub : forall l k, In k (order l) -> In k l.

  Lemma members_true (r : efns) (pairs : list (value * value)) :
    (forall xy, In xy pairs -> e_equals r (fst xy) (snd xy) = Ok v_true) ->
    (fix go (l : list (value * value)) : res value :=
       match l with
       | [] => Ok v_true
       | xy :: l' =>
           do e <- e_equals r (fst xy) (snd xy);
           if negb (is_known e) then Ok unk_not_null
           else if known_and_false e then Ok v_false
           else go l'
       end) pairs = Ok v_true.
  Proof.
    induction pairs as [|xy l IHl]; intros H; [reflexivity|].
    rewrite (H xy (or_introl eq_refl)). cbn [bind v_true v_bool is_known vp top_payload negb known_and_false].
    apply IHl. intros xy0 Hin. apply H. right. exact Hin.
  Qed.

  Lemma members_ou_true (r : efns) (pairs : list (value * value)) :
    (forall xy, In xy pairs -> e_equals r (fst xy) (snd xy) = Ok v_true) ->
    (fix go (l : list (value * value)) (saw : bool) : res value :=
       match l with
       | [] => Ok (if saw then unk_not_null else v_true)
       | xy :: l' =>
           do e <- e_equals r (fst xy) (snd xy);
           if negb (is_known e) then go l' true
           else if known_and_false e then Ok v_false
           else go l' saw
       end) pairs false = Ok v_true.
  Proof.
    induction pairs as [|xy l IHl]; intros H; [reflexivity|].
    rewrite (H xy (or_introl eq_refl)). cbn [bind v_true v_bool is_known vp top_payload negb known_and_false].
    apply IHl. intros xy0 Hin. apply H. right. exact Hin.
  Qed.

  Theorem equals_refl_at : forall n t p, KRT t p -> wf_ty t = true -> (pdepth p <= n)%nat ->
    forall f, (n < f)%nat -> e_equals (efns_at order f) (V t p) (V t p) = Ok v_true.
  Proof.
    induction n as [|n IH]; intros t p R W D f Hf.
    { destruct p; cbn [pdepth] in D; lia. }
    destruct f as [|f]; [lia|]. assert (Hf0 : (n < f)%nat) by lia.
    change (e_equals (efns_at order (S f))) with (equals_step (efns_at order f) order).
    destruct (KRT_clean_at (S n) t p R D) as [C1 C2].
    unfold equals_step. unfold contains_marked. cbn [vp]. rewrite C1. cbn [orb].
    inversion R as [t0 Hk Hd|t0|b|s Hs|e l We Fl|es l F2|e m We Sm Nm Fm|attrs m Sa Na F2]; subst; try discriminate;
      cbn [definitely_not_null vp vty bind is_null is_known top_payload andb orb negb]; try reflexivity;
      rewrite C2; cbn [negb orb]; rewrite (ty_equals_refl _ W); cbn [negb].
    - rewrite Bool.eqb_reflx. reflexivity.
    - rewrite str_eqb_refl. reflexivity.
    - (* list *)
      rewrite Nat.eqb_refl. apply members_true. intros xy Hin.
      apply in_map_iff in Hin as ([x y] & <- & Hin). cbn [fst snd].
      assert (E : x = y /\ In x l).
      { clear -Hin. induction l as [|z l IHl]; [contradiction|]. destruct Hin as [E|Hin]; [injection E as <- <-; split; [reflexivity|left; reflexivity]|].
        destruct (IHl Hin) as [E I]. split; [exact E|right; exact I]. }
      destruct E as [<- Hx].
      apply IH; [rewrite Forall_forall in Fl; apply Fl; exact Hx|exact We| |exact Hf0].
      assert (Dm : (S (fold_right (fun y k => Nat.max (pdepth y) k) 0 l) <= S n)%nat) by exact D.
      pose proof (depth_in_list l x Hx). lia.
    - (* tuple *)
      apply members_true. intros xy Hin.
      apply in_map_iff in Hin as ([te [x y]] & <- & Hin). cbn [fst snd].
      assert (E : x = y /\ In x l /\ KRT te x /\ wf_ty te = true).
      { cbn [wf_ty] in W. clear -Hin F2 W. induction F2 as [|te0 z es' l' Rz _ IHf]; [contradiction|].
        cbn [forallb] in W. apply andb_true_iff in W as [W1 W2].
        destruct Hin as [E|Hin]; [injection E as <- <- <-; repeat split; [left; reflexivity|exact Rz|exact W1]|].
        destruct (IHf W2 Hin) as (E & I & R' & W'). repeat split; [exact E|right; exact I|exact R'|exact W']. }
      destruct E as (<- & Hx & Rx & Wx).
      apply IH; [exact Rx|exact Wx| |exact Hf0].
      assert (Dm : (S (fold_right (fun y k => Nat.max (pdepth y) k) 0 l) <= S n)%nat) by exact D.
      pose proof (depth_in_list l x Hx). lia.
    - (* map *)
      rewrite Nat.eqb_refl.
      assert (G : forall ks, (forall k, In k ks -> In k (keys m)) ->
         (fix go (l : list str) (saw : bool) : res value :=
            match l with
            | [] => Ok (if saw then unk_not_null else v_true)
            | k :: l' =>
                match lookup k m, lookup k m with
                | Some x, Some y =>
                    do e' <- e_equals (efns_at order f) (V e x) (V e y);
                    if negb (is_known e') then go l' true
                    else if known_and_false e' then Ok v_false
                    else go l' saw
                | _, _ => Ok v_false
                end
            end) ks false = Ok v_true).
      { induction ks as [|k ks IHk]; intros Hk; [reflexivity|].
        assert (Hin : In k (keys m)) by (apply Hk; left; reflexivity).
        apply in_map_iff in Hin as (kv & Ek & Hin).
        assert (L : lookup k m = Some (snd kv)) by (rewrite <- Ek; apply lookup_sorted_self; [apply sorted_NoDup; exact Sm|exact Hin]).
        rewrite L.
        rewrite (IH e (snd kv)); [| rewrite Forall_forall in Fm; apply Fm; exact Hin|exact We| |exact Hf0].
        - cbn [bind v_true v_bool is_known vp top_payload negb known_and_false]. apply IHk. intros k0 H0. apply Hk. right. exact H0.
        - assert (Dm : (S ((fix go (l : list (str * payload)) : nat :=
                              match l with [] => 0%nat | kv :: l' => Nat.max (pdepth (snd kv)) (go l') end) m) <= S n)%nat) by exact D.
          pose proof (depth_in_map m kv Hin). lia. }
      apply G. intros k Hk. apply order_sub. exact Hk.
    - (* object *)
      apply members_ou_true. intros xy Hin.
      apply in_flat_map in Hin as (k & Hk & Hin).
      destruct (lookup k attrs) as [ta|] eqn:La; [|contradiction].
      destruct (lookup k m) as [x|] eqn:Lm; [|contradiction].
      destruct Hin as [<-|[]]. cbn [fst snd].
      apply lookup_In in Lm.
      destruct (obj_member_ty KRT attrs m Sa F2 (k, x) Lm) as (ta2 & La2 & Rk). cbn [fst snd] in La2, Rk.
      rewrite La in La2. injection La2 as <-.
      apply IH; [exact Rk|eapply (wf_ty_obj_attr attrs [] (k, ta)); [exact W|apply lookup_In; exact La]| |exact Hf0].
      assert (Dm : (S ((fix go (l : list (str * payload)) : nat :=
                          match l with [] => 0%nat | kv :: l' => Nat.max (pdepth (snd kv)) (go l') end) m) <= S n)%nat) by exact D.
      pose proof (depth_in_map m (k, x) Lm). cbn [snd] in *. lia.
  Qed.
End EqualsRefl.

(* the public entry point (sorted visiting order, its own fuel) and any other visiting order *)
Theorem equals_v_refl norm t p : RT norm false t p -> wf_ty t = true -> equals_v (V t p) (V t p) = Ok v_true.
Proof.
  intros R W. unfold equals_v, equals_ord, efuel. cbn [vp].
  apply (equals_refl_at norm (fun l => l) (fun l k h => h) (pdepth p) t p R W (le_n _)).
  pose proof (pdepth_le_psize p). lia.
Qed.
Theorem equals_ord_refl norm order t p : (forall l k, In k (order l) -> In k l) ->
  RT norm false t p -> wf_ty t = true -> equals_ord order (V t p) (V t p) = Ok v_true.
Proof.
  intros Ho R W. unfold equals_ord, efuel. cbn [vp].
  apply (equals_refl_at norm order Ho (pdepth p) t p R W (le_n _)).
  pose proof (pdepth_le_psize p). lia.
Qed.
