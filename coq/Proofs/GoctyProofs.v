(* GoctyProofs.v — decoding numbers into Go numeric types is exact or refuses (C18). *)
From Coq Require Import Lia.
From Cty Require Import Base BigFloat Gocty CmpProofs.
Open Scope Z_scope.

(* the integer s*m (s = +-1, m >= 0) as bf_of_int builds it, compared at scale 0 *)
Lemma zv_of_int_pos m : 0 <= m -> zv 0 (bf_of_int m) = m.
Proof.
  intros H. unfold zv, bf_of_int, sc. replace (m <? 0) with false by (symmetry; apply Z.ltb_ge; lia).
  rewrite Z.abs_eq by lia. rewrite Z2N.id by lia. rewrite Z.sub_0_r, Z.pow_0_r. lia.
Qed.
Lemma zv_of_int_neg m : 0 < m -> zv 0 (bf_of_int (- m)) = - m.
Proof.
  intros H. unfold zv, bf_of_int, sc. replace (- m <? 0) with true by (symmetry; apply Z.ltb_lt; lia).
  replace (Z.abs (- m)) with m by lia. rewrite Z2N.id by lia. rewrite Z.sub_0_r, Z.pow_0_r. lia.
Qed.
Lemma zv_scale m k x : is_fin x = true -> k <= m -> m <= fin_exp x -> zv k x = zv m x * 2 ^ (m - k).
Proof.
  destruct x as [|n s e p]; [discriminate|]. cbn [fin_exp]. intros _ Hk Hm. unfold zv, sc.
  replace (e - k) with ((e - m) + (m - k)) by lia. rewrite Z.pow_add_r by lia. ring.
Qed.

(* whenever big.Float.Int is exact, the integer IS the number *)
Lemma bf_int_exact_value x i : bf_int x = (Some i, Exact) -> bf_numeq x (bf_of_int i) = true.
Proof.
  destruct x as [n p|n sig e p]; [destruct n; discriminate|].
  unfold bf_int. destruct sig as [|ps].
  - intros H. injection H as <-. reflexivity.
  - set (sg := N.pos ps). assert (Sp : 0 < Z.of_N sg) by (unfold sg; lia).
    destruct (0 <=? e) eqn:E.
    + apply Z.leb_le in E. intros H. injection H as <-.
      assert (V : Z.of_N (N.shiftl sg (Z.to_N e)) = Z.of_N sg * 2 ^ e) by (apply shiftl_Z; lia).
      assert (P : 0 < Z.of_N sg * 2 ^ e) by (apply Z.mul_pos_pos; [lia|apply Z.pow_pos_nonneg; lia]).
      unfold bf_numeq. rewrite (bf_cmp_fin 0) by (cbn; auto; lia).
      change (Z.pos (Pos.shiftl ps (Z.to_N e))) with (Z.of_N (N.shiftl sg (Z.to_N e))).
      rewrite V. destruct n.
      * replace (-1 * (Z.of_N sg * 2 ^ e)) with (- (Z.of_N sg * 2 ^ e)) by lia. rewrite zv_of_int_neg by lia.
        unfold zv, sc. rewrite Z.sub_0_r. replace (-1 * (Z.of_N sg * 2 ^ e)) with (- (Z.of_N sg * 2 ^ e)) by lia.
        rewrite Z.compare_refl. reflexivity.
      * replace (1 * (Z.of_N sg * 2 ^ e)) with (Z.of_N sg * 2 ^ e) by lia. rewrite zv_of_int_pos by lia.
        unfold zv, sc. rewrite Z.sub_0_r. replace (1 * (Z.of_N sg * 2 ^ e)) with (Z.of_N sg * 2 ^ e) by lia.
        rewrite Z.compare_refl. reflexivity.
    + apply Z.leb_gt in E.
      destruct (N.shiftl (N.shiftr sg (Z.to_N (- e))) (Z.to_N (- e)) =? sg)%N eqn:X; [|destruct n; discriminate].
      apply N.eqb_eq in X. intros H. injection H as <-.
      set (t := N.shiftr sg (Z.to_N (- e))) in *.
      assert (Ht : Z.of_N t * 2 ^ (- e) = Z.of_N sg).
      { rewrite <- X. symmetry. apply shiftl_Z. lia. }
      assert (Tp : 0 < Z.of_N t).
      { destruct (Z.of_N t) eqn:Zt; [exfalso; rewrite Z.mul_0_l in Ht; lia|lia|lia]. }
      unfold bf_numeq. rewrite (bf_cmp_fin e) by (cbn; auto; lia).
      destruct n.
      * replace (-1 * Z.of_N t) with (- Z.of_N t) by lia.
        rewrite (zv_scale 0 e (bf_of_int (- Z.of_N t))) by (cbn; auto; lia).
        rewrite zv_of_int_neg by lia. unfold zv, sc. rewrite Z.sub_diag, Z.pow_0_r.
        replace (0 - e) with (- e) by lia.
        replace (-1 * (Z.of_N sg * 1)) with (- Z.of_N t * 2 ^ (- e)) by lia.
        rewrite Z.compare_refl. reflexivity.
      * replace (1 * Z.of_N t) with (Z.of_N t) by lia.
        rewrite (zv_scale 0 e (bf_of_int (Z.of_N t))) by (cbn; auto; lia).
        rewrite zv_of_int_pos by lia. unfold zv, sc. rewrite Z.sub_diag, Z.pow_0_r.
        replace (0 - e) with (- e) by lia.
        replace (1 * (Z.of_N sg * 1)) with (Z.of_N t * 2 ^ (- e)) by lia.
        rewrite Z.compare_refl. reflexivity.
Qed.

Lemma bf_int_of_int_gocty i : bf_int (bf_of_int i) = (Some i, Exact).
Proof.
  unfold bf_int, bf_of_int.
  destruct (Z.to_N (Z.abs i)) eqn:E.
  - assert (i = 0) by lia. subst. reflexivity.
  - cbn [Z.leb Z.compare]. rewrite N.shiftl_0_r. rewrite <- E.
    destruct (i <? 0) eqn:S.
    + apply Z.ltb_lt in S. f_equal. f_equal. rewrite Z2N.id by lia. lia.
    + apply Z.ltb_ge in S. f_equal. f_equal. rewrite Z2N.id by lia. lia.
Qed.

(* decoding into a signed integer type: success means "whole, in range, and that very number" *)
Theorem from_int_sound x w i : from_cty_number x (NTInt w) = Ok (GInt i) ->
  int_min w <= i <= int_max w /\ fst (bf_int64 x) = i /\ snd (bf_int64 x) = Exact.
Proof.
  unfold from_cty_number. destruct (bf_int64 x) as [iv a] eqn:E.
  destruct (acc_eqb a Exact && (int_min w <=? iv) && (iv <=? int_max w)) eqn:C; [|discriminate].
  intros H. injection H as <-. apply andb_true_iff in C as [C C3]. apply andb_true_iff in C as [C1 C2].
  apply Z.leb_le in C2, C3. destruct a; try discriminate. simpl. auto.
Qed.

Theorem from_int_exact_value x i a : bf_int64 x = (i, a) -> a = Exact -> bf_numeq x (bf_of_int i) = true.
Proof.
  unfold bf_int64. destruct (bf_int x) as [[t|] a'] eqn:E.
  - destruct (t <? int64_min); [intros H; injection H as <- <-; discriminate|].
    destruct (int64_max <? t); [intros H; injection H as <- <-; discriminate|].
    intros H Ha. injection H as <- <-. subst a'. apply bf_int_exact_value. exact E.
  - destruct x as [[|] ?|? ? ? ?]; intros H Ha; injection H as <- <-; discriminate.
Qed.

(* every Go integer of the width comes back: decoding what encoding produced *)
Theorem int_roundtrip w z : 1 <= w <= 64 -> int_min w <= z <= int_max w ->
  from_cty_number (to_cty_number (GInt z)) (NTInt w) = Ok (GInt z).
Proof.
  intros Hw Hz. unfold to_cty_number, from_cty_number.
  assert (R : int64_min <= z <= int64_max).
  { unfold int_min, int_max, int64_min, int64_max in *.
    assert (2 ^ (w - 1) <= 2 ^ 63) by (apply Z.pow_le_mono_r; lia).
    change (2 ^ 63) with 9223372036854775808 in H. lia. }
  unfold bf_int64. rewrite bf_int_of_int_gocty.
  destruct (z <? int64_min) eqn:A; [apply Z.ltb_lt in A; lia|].
  destruct (int64_max <? z) eqn:B; [apply Z.ltb_lt in B; lia|].
  cbn [acc_eqb andb]. destruct (int_min w <=? z) eqn:C; [|apply Z.leb_gt in C; lia].
  destruct (z <=? int_max w) eqn:D; [reflexivity|apply Z.leb_gt in D; lia].
Qed.
