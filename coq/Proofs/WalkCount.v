(* WalkCount.v — C19: on the structural fragment Walk reports exactly one entry per node of the value
   (the value itself and every nested member, nulls and unknowns included), at every depth. *)
From Coq Require Import Lia.
From Cty Require Import Base Ty BigFloat Value Hash Ops Refine Wf Json Walk BaseProofs TyProofs WfProofs OpsProofs FuncProofs JsonProofs MsgpackProofs DecodeProofs JsonRoundTrip WalkProofs WalkIdentity WalkResolve WfRT.
Open Scope Z_scope.

Definition sumsz (ms : list (step * value)) : nat := fold_right (fun sm n => (psize (vp (snd sm)) + n)%nat) 0%nat ms.

Lemma go_length f pre (ms : list (step * value)) :
  (forall sm, In sm ms -> forall pre' l', walk_at f pre' (snd sm) = Ok l' -> length l' = psize (vp (snd sm))) ->
  forall rest,
  (fix go (l : list (step * value)) : res (list (path * value)) :=
     match l with
     | [] => Ok []
     | sm :: l' => do a <- walk_at f (pre ++ [fst sm]) (snd sm); do b <- go l'; Ok (a ++ b)
     end) ms = Ok rest -> length rest = sumsz ms.
Proof.
  induction ms as [|sm ms IH]; intros H rest E; [injection E as <-; reflexivity|].
  destruct (walk_at f (pre ++ [fst sm]) (snd sm)) as [a| | |] eqn:Ea; cbn [bind] in E; try discriminate E.
  match type of E with (do b <- ?g; _) = _ => destruct g as [b| | |] eqn:Eb end; cbn [bind] in E; try discriminate E.
  injection E as <-. rewrite app_length. cbn [sumsz fold_right].
  rewrite (H sm (or_introl eq_refl) _ a Ea). f_equal.
  apply IH; [intros sm0 Hin; apply H; right; exact Hin|reflexivity].
Qed.

Section WalkCount.
  Variable norm : str -> str.
  Variable unk : bool.

  Lemma sumsz_list e (l : list payload) : forall k,
    sumsz (map (fun '(i, p0) => (SIndex (v_int (Z.of_nat i)), V e p0)) (combine (seq k (length l)) l)) =
    fold_right (fun x n => (psize x + n)%nat) 0%nat l.
  Proof. induction l as [|x l IH]; intros k; [reflexivity|]. cbn [length seq combine map sumsz fold_right snd vp]. f_equal. apply IH. Qed.

  Lemma sumsz_tuple (es : list ty) (l : list payload) : length es = length l -> forall k,
    sumsz (map (fun '(i, (te, p0)) => (SIndex (v_int (Z.of_nat i)), V te p0)) (combine (seq k (length l)) (combine es l))) =
    fold_right (fun x n => (psize x + n)%nat) 0%nat l.
  Proof.
    revert es. induction l as [|x l IH]; intros [|te es] L k; try discriminate; [reflexivity|].
    cbn [length seq combine map sumsz fold_right snd vp]. f_equal. apply IH. injection L as L. exact L.
  Qed.

  Lemma sumsz_map e (m : list (str * payload)) :
    sumsz (map (fun kv : str * payload => (SIndex (v_str (fst kv)), V e (snd kv))) m) =
    (fix go (l : list (str * payload)) : nat := match l with [] => 0 | kv :: l' => psize (snd kv) + go l' end)%nat m.
  Proof. induction m as [|kv m IH]; [reflexivity|]. cbn [map sumsz fold_right snd vp]. f_equal. exact IH. Qed.

  Lemma sumsz_obj attrs (m : list (str * payload)) :
    sumsz (map (fun kv : str * payload => (SAttr (fst kv), V (match lookup (fst kv) attrs with Some ta => ta | None => TDyn end) (snd kv))) m) =
    (fix go (l : list (str * payload)) : nat := match l with [] => 0 | kv :: l' => psize (snd kv) + go l' end)%nat m.
  Proof. induction m as [|kv m IH]; [reflexivity|]. cbn [map sumsz fold_right snd vp]. f_equal. exact IH. Qed.

  Theorem walk_length_at : forall n t p, RT norm unk t p -> (pdepth p <= n)%nat ->
    forall f pre l, walk_at f pre (V t p) = Ok l -> length l = psize p.
  Proof.
    induction n as [|n IH]; intros t p R D f pre l E.
    { destruct p; cbn [pdepth] in D; lia. }
    destruct f as [|f]; [discriminate E|]. cbn [walk_at] in E.
    inversion R as [t0 Hk Hd|t0|b|s Hs|e l0 We Fl|es l0 F2|e m We Sm Nm Fm|attrs m Sa Na F2]; subst;
      cbn [is_null is_known vp top_payload negb orb unmark_force unmark fst members_of vty bind] in E;
      try (injection E as <-; reflexivity).
    - (* list *)
      match type of E with (do rest <- ?g; _) = _ => destruct g as [rest| | |] eqn:Er end; cbn [bind] in E; try discriminate E.
      injection E as <-. cbn [length psize]. f_equal. rewrite <- (sumsz_list e l0 0).
      apply (go_length f pre _) with (rest := rest); [|exact Er].
      intros sm Hin pre' l' E'. apply in_map_iff in Hin as ([i x] & <- & Hin). cbn [snd vp] in *.
      apply in_combine_r in Hin.
      eapply IH; [rewrite Forall_forall in Fl; apply Fl; exact Hin| |exact E'].
      assert (Dm : (S (fold_right (fun y k => Nat.max (pdepth y) k) 0 l0) <= S n)%nat) by exact D.
      pose proof (depth_in_list l0 x Hin). lia.
    - (* tuple *)
      assert (L : length es = length l0) by (eapply Forall2_length; eauto).
      match type of E with (do rest <- ?g; _) = _ => destruct g as [rest| | |] eqn:Er end; cbn [bind] in E; try discriminate E.
      injection E as <-. cbn [length psize]. f_equal. rewrite <- (sumsz_tuple es l0 L 0).
      apply (go_length f pre _) with (rest := rest); [|exact Er].
      intros sm Hin pre' l' E'. apply in_map_iff in Hin as ([i [te x]] & <- & Hin). cbn [snd vp] in *.
      apply in_combine_r in Hin.
      assert (Rx : RT norm unk te x /\ In x l0).
      { clear -F2 Hin. induction F2 as [|a b la lb Rab _ IHf]; [contradiction|]. destruct Hin as [E|Hin]; [injection E as <- <-; split; [exact Rab|left; reflexivity]|].
        destruct (IHf Hin) as [R1 I1]. split; [exact R1|right; exact I1]. }
      destruct Rx as [Rx Ix].
      eapply IH; [exact Rx| |exact E'].
      assert (Dm : (S (fold_right (fun y k => Nat.max (pdepth y) k) 0 l0) <= S n)%nat) by exact D.
      pose proof (depth_in_list l0 x Ix). lia.
    - (* map *)
      match type of E with (do rest <- ?g; _) = _ => destruct g as [rest| | |] eqn:Er end; cbn [bind] in E; try discriminate E.
      injection E as <-. cbn [length psize]. f_equal. rewrite <- (sumsz_map e m).
      apply (go_length f pre _) with (rest := rest); [|exact Er].
      intros sm Hin pre' l' E'. apply in_map_iff in Hin as (kv & <- & Hin). cbn [snd vp] in *.
      eapply IH; [rewrite Forall_forall in Fm; apply Fm; exact Hin| |exact E'].
      assert (Dm : (S ((fix go (l : list (str * payload)) : nat :=
                          match l with [] => 0%nat | kv :: l' => Nat.max (pdepth (snd kv)) (go l') end) m) <= S n)%nat) by exact D.
      pose proof (depth_in_map m kv Hin). lia.
    - (* object *)
      match type of E with (do rest <- ?g; _) = _ => destruct g as [rest| | |] eqn:Er end; cbn [bind] in E; try discriminate E.
      injection E as <-. cbn [length psize]. f_equal. rewrite <- (sumsz_obj attrs m).
      apply (go_length f pre _) with (rest := rest); [|exact Er].
      intros sm Hin pre' l' E'. apply in_map_iff in Hin as (kv & <- & Hin). cbn [snd vp] in *.
      destruct (WfRT.obj_member_ty (RT norm unk) attrs m Sa F2 kv Hin) as (ta & La & Rk). rewrite La in E'.
      eapply IH; [exact Rk| |exact E'].
      assert (Dm : (S ((fix go (l : list (str * payload)) : nat :=
                          match l with [] => 0%nat | kv :: l' => Nat.max (pdepth (snd kv)) (go l') end) m) <= S n)%nat) by exact D.
      pose proof (depth_in_map m kv Hin). lia.
  Qed.

  Theorem walk_length t p l : RT norm unk t p -> walk (V t p) = Ok l -> length l = psize p.
  Proof. intros R E. unfold walk in E. exact (walk_length_at (pdepth p) t p R (le_n _) _ _ l E). Qed.
End WalkCount.
