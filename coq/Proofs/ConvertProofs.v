(* ConvertProofs.v — facts about the conversion and unification model (C08, C09). *)
From Coq Require Import Lia.
From Cty Require Import Base Ty BigFloat Value Hash Ops Refine Walk Convert.
Open Scope Z_scope.

Lemma cfuel_pos ts : exists f, cfuel ts = S f.
Proof. unfold cfuel. eexists. reflexivity. Qed.

(* Convert is the identity on a value that already has the requested type (optional-attribute
   annotations of the request disregarded), whatever the value: known, null, unknown, marked *)
Theorem convert_identity v t : ty_equals (vty v) (strip_opt t) = true -> convert v t = Ok v.
Proof.
  intros H. unfold convert. destruct (cfuel_pos [vty v; t]) as [f ->].
  cbn [cfns_at c_convert]. unfold convert_step. rewrite H. reflexivity.
Qed.

(* every conversion handed out by the lookup is the wrapper around a type-directed conversion *)
Theorem get_step_wrapped r i o unsafe f : get_step r i o unsafe = Ok (Some f) -> exists c, f = wrap r o c.
Proof.
  unfold get_step. destruct (get_known r i o unsafe) as [[c|]| | |]; cbn [bind]; try discriminate.
  intros H. injection H as <-. exists c. reflexivity.
Qed.

Lemma with_marks_nil v : is_marked v = false -> with_marks v [] = v.
Proof.
  unfold is_marked, with_marks, unmark. destruct v as [t p]. cbn [vp vty]. destruct p; try discriminate; intros _; reflexivity.
Qed.

Lemma unmark_unmarked v : is_marked v = false -> unmark v = (v, []).
Proof. unfold is_marked, unmark. destruct v as [t p]. cbn [vp vty]. destruct p; try discriminate; reflexivity. Qed.

(* a dynamic target: the value comes back as it is *)
Theorem wrap_dynamic_target r c v : is_marked v = false -> wrap r TDyn c v = Ok v.
Proof.
  intros M. unfold wrap. rewrite (unmark_unmarked v M). change (is_dyn TDyn) with true. cbv iota. unfold rmap. cbn [bind]. rewrite with_marks_nil by exact M. reflexivity.
Qed.

(* a null of any type converts to a null, of the target type with its placeholders replaced
   and its optional-attribute annotations removed; the type-directed conversion is not consulted *)
Theorem wrap_null r o c v : is_marked v = false -> is_dyn o = false -> is_known v = true -> is_null v = true ->
  wrap r o c v = do t <- dynamic_replace r (Some (vty v)) (strip_opt o); Ok (v_null t).
Proof.
  intros M D K N. unfold wrap. rewrite (unmark_unmarked v M), D, K, N. cbn [negb].
  unfold rmap. destruct (dynamic_replace r (Some (vty v)) (strip_opt o)) as [t| | |]; cbn [bind]; try reflexivity.
Qed.

(* an unknown converts to what prepareUnknownResult builds from its range, again without the
   type-directed conversion: the result is an unknown (or what its refinements collapse to) *)
Theorem wrap_unknown r o c v : is_marked v = false -> is_dyn o = false -> is_known v = false ->
  wrap r o c v = rmap (fun x => with_marks x [])
    (do rg <- range_of v; do t <- dynamic_replace r (Some (vty v)) (strip_opt o); prepare_unknown_result rg t).
Proof.
  intros M D K. unfold wrap. rewrite (unmark_unmarked v M), D, K. cbn [negb]. reflexivity.
Qed.

(* marks travel around the conversion: the marked value's result is the unmarked value's result, re-marked *)
Theorem wrap_marks r o c t ms p : wrap r o c (V t (PMarked ms p)) =
  rmap (fun x => with_marks x ms)
    (let u := V t p in
     if is_dyn o then Ok u
     else if negb (is_known u) then do rg <- range_of u; do t' <- dynamic_replace r (Some (vty u)) (strip_opt o); prepare_unknown_result rg t'
     else if is_null u then do t' <- dynamic_replace r (Some (vty u)) (strip_opt o); Ok (v_null t')
     else c u).
Proof. reflexivity. Qed.

(* the primitive tables: whatever is offered as safe is offered as unsafe, and unsafe adds only string parses *)
Theorem prim_safe_then_unsafe i o : is_prim i = true -> is_prim o = true ->
  forall r, (exists f, get_known r i o false = Ok (Some f)) -> exists g, get_known r i o true = Ok (Some g).
Proof.
  intros Pi Po r [f H]. destruct i; try discriminate; destruct o; try discriminate; cbn in H |- *; try discriminate; eexists; reflexivity.
Qed.

(* ---------- unification ---------- *)
Theorem unify_empty unsafe : unify [] unsafe = Ok None.
Proof. reflexivity. Qed.

(* when any input is a placeholder next to collections / structures of one kind, everything goes to
   dynamic and every returned conversion yields DynamicVal, a value of the unified type *)
Theorem unify_all_dynamic_sound tys : forall t cs, unify_all_dynamic tys = Some (t, cs) ->
  t = TDyn /\ length cs = length tys /\
  forall c, In c cs -> exists f, c = Some f /\ forall v, f v = Ok v_dyn.
Proof.
  intros t cs H. unfold unify_all_dynamic in H. injection H as <- <-. split; [reflexivity|]. split; [apply map_length|].
  intros c Hin. apply in_map_iff in Hin as [x [<- _]]. eexists. split; [reflexivity|]. intros v. reflexivity.
Qed.

(* a single primitive type unifies to itself with no conversion *)
Theorem unify_single_prim t unsafe : is_prim t = true -> exists f, c_unify (cfns_at (S f)) [t] unsafe = Ok (Some (t, [None])).
Proof.
  intros P. exists 0%nat. destruct t; try discriminate; vm_compute; reflexivity.
Qed.
