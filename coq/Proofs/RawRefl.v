(* RawRefl.v — C03: raw equality is reflexive at every depth on the structural fragment [RT]
   (and on numbers: EqProofs.raw_number_equal_refl). *)
From Coq Require Import Lia.
From Cty Require Import Base Ty BigFloat Value Hash Ops Refine Wf Json Walk BaseProofs TyProofs WfProofs OpsProofs FuncProofs JsonProofs MsgpackProofs DecodeProofs JsonRoundTrip WalkProofs WalkIdentity WfRT.
Open Scope Z_scope.

Lemma all_ok_refl {A} (f : A -> A -> res bool) (l : list A) :
  (forall x, In x l -> f x x = Ok true) -> all_ok f l l = Ok true.
Proof.
  induction l as [|x l IH]; intros H; cbn [all_ok]; [reflexivity|].
  rewrite (H x (or_introl eq_refl)). cbn [bind]. apply IH. intros y Hy. apply H. right. exact Hy.
Qed.

Lemma wf_ty_obj_attr attrs opt kt : wf_ty (TObj attrs opt) = true -> In kt attrs -> wf_ty (snd kt) = true.
Proof.
  cbn [wf_ty]. intros W Hin. apply andb_true_iff in W as [_ W].
  induction attrs as [|a attrs IH]; [contradiction|]. apply andb_true_iff in W as [W1 W2].
  destruct Hin as [<-|Hin]; [exact W1|apply IH; assumption].
Qed.

Section RawRefl.
  Variable norm : str -> str.
  Variable unk : bool.

  Theorem raw_refl_at : forall n t p, RT norm unk t p -> wf_ty t = true -> (pdepth p <= n)%nat ->
    forall f, (n < f)%nat -> h_raw (hfns_at f) (V t p) (V t p) = Ok true.
  Proof.
    induction n as [|n IH]; intros t p R W D f Hf.
    { destruct p; cbn [pdepth] in D; lia. }
    destruct f as [|f]; [lia|]. assert (Hf0 : (n < f)%nat) by lia.
    change (h_raw (hfns_at (S f))) with (raw_step (hfns_at f)).
    unfold raw_step. cbn [vty]. rewrite (ty_equals_refl t W). cbn [negb].
    inversion R as [t0 Hk Hd|t0|b|s Hs|e l We Fl|es l F2|e m We Sm Nm Fm|attrs m Sa Na F2]; subst;
      cbn [marks_of unmark unmark_force vp vty snd fst list_eqb negb]; try reflexivity.
    - rewrite Bool.eqb_reflx. reflexivity.
    - rewrite str_eqb_refl. reflexivity.
    - (* list *)
      rewrite Nat.eqb_refl. cbn [negb]. apply all_ok_refl. intros x Hin.
      apply IH; [rewrite Forall_forall in Fl; apply Fl; exact Hin|exact We| |exact Hf0].
      assert (Dm : (S (fold_right (fun y k => Nat.max (pdepth y) k) 0 l) <= S n)%nat) by exact D.
      pose proof (depth_in_list l x Hin). lia.
    - (* tuple *)
      assert (Dall : forall x, In x l -> (pdepth x <= n)%nat).
      { intros x Hin. assert (Dm : (S (fold_right (fun y k => Nat.max (pdepth y) k) 0 l) <= S n)%nat) by exact D.
        pose proof (depth_in_list l x Hin). lia. }
      cbn [wf_ty] in W. clear D R.
      induction F2 as [|te x es' l' Rx _ IHf]; [reflexivity|].
      cbn [forallb] in W. apply andb_true_iff in W as [W1 W2].
      rewrite (IH te x Rx W1 (Dall x (or_introl eq_refl)) f Hf0). cbn [bind].
      rewrite IHf; [reflexivity|exact W2|intros y Hy; apply Dall; right; exact Hy].
    - (* map *)
      rewrite Nat.eqb_refl. cbn [negb].
      assert (Hall : forall kv, In kv m -> lookup (fst kv) m = Some (snd kv) /\
                                           h_raw (hfns_at f) (V e (snd kv)) (V e (snd kv)) = Ok true).
      { intros kv Hin. split; [apply lookup_sorted_self; [apply sorted_NoDup; exact Sm|exact Hin]|].
        apply IH; [rewrite Forall_forall in Fm; apply Fm; exact Hin|exact We| |exact Hf0].
        assert (Dm : (S ((fix go (l : list (str * payload)) : nat :=
                            match l with [] => 0%nat | kv :: l' => Nat.max (pdepth (snd kv)) (go l') end) m) <= S n)%nat) by exact D.
        pose proof (depth_in_map m kv Hin). lia. }
      assert (G : forall sub, (forall kv, In kv sub -> In kv m) ->
         (fix go (l : list (str * payload)) : res bool :=
            match l with
            | [] => Ok true
            | kv :: l' => match lookup (fst kv) m with
                          | None => Ok false
                          | Some y => do e' <- h_raw (hfns_at f) (V e (snd kv)) (V e y); do rest <- go l'; Ok (e' && rest)
                          end
            end) sub = Ok true).
      { induction sub as [|kv sub IHs]; intros Hsub; [reflexivity|].
        destruct (Hall kv (Hsub kv (or_introl eq_refl))) as [L E]. rewrite L, E. cbn [bind].
        rewrite IHs; [reflexivity|intros kv0 Hin; apply Hsub; right; exact Hin]. }
      apply G. auto.
    - (* object *)
      pose proof (F2_keys (RT norm unk) attrs m F2) as Km.
      assert (Skm : sorted_keys (keys m) = true) by (rewrite Km; exact Sa).
      assert (Hall : forall kt, In kt attrs -> exists x, lookup (fst kt) m = Some x /\
                                           h_raw (hfns_at f) (V (snd kt) x) (V (snd kt) x) = Ok true).
      { intros kt Hin.
        assert (Hx : exists kv, In kv m /\ fst kv = fst kt /\ RT norm unk (snd kt) (snd kv)).
        { clear -F2 Hin. induction F2 as [|a b la lb [E Rab] _ IHf]; [contradiction|].
          destruct Hin as [<-|Hin]; [exists b; split; [left; reflexivity|split; assumption]|].
          destruct (IHf Hin) as (kv & I1 & I2). exists kv. split; [right; exact I1|exact I2]. }
        destruct Hx as (kv & Hk & Ek & Rk). exists (snd kv). split.
        - rewrite <- Ek. apply lookup_sorted_self; [apply sorted_NoDup; exact Skm|exact Hk].
        - apply IH; [exact Rk|eapply wf_ty_obj_attr; eauto| |exact Hf0].
          assert (Dm : (S ((fix go (l : list (str * payload)) : nat :=
                              match l with [] => 0%nat | kv :: l' => Nat.max (pdepth (snd kv)) (go l') end) m) <= S n)%nat) by exact D.
          pose proof (depth_in_map m kv Hk). lia. }
      assert (G : forall sub, (forall kt, In kt sub -> In kt attrs) ->
         (fix go (l : list (str * ty)) : res bool :=
            match l with
            | [] => Ok true
            | kt :: l' =>
                match lookup (fst kt) m, lookup (fst kt) m with
                | Some x, Some y => do e <- h_raw (hfns_at f) (V (snd kt) x) (V (snd kt) y);
                                    do rest <- go l'; Ok (e && rest)
                | _, _ => Panic
                end
            end) sub = Ok true).
      { induction sub as [|kt sub IHs]; intros Hsub; [reflexivity|].
        destruct (Hall kt (Hsub kt (or_introl eq_refl))) as (x & L & E). rewrite L, E. cbn [bind].
        rewrite IHs; [reflexivity|intros kt0 Hin; apply Hsub; right; exact Hin]. }
      apply G. auto.
  Qed.

  (* the public entry point, with its own fuel *)
  Theorem raw_equals_refl t p : RT norm unk t p -> wf_ty t = true -> raw_equals (V t p) (V t p) = Ok true.
  Proof.
    intros R W. unfold raw_equals, hfuel. cbn [vp]. apply (raw_refl_at (pdepth p) t p R W (le_n _)).
    pose proof (pdepth_le_psize p). lia.
  Qed.
End RawRefl.
