(* WalkResolve.v — C19: Walk succeeds on every value of the structural fragment [RT] (nested to any depth),
   and every path it reports, applied to the root, returns exactly the member reported with it. *)
From Coq Require Import Lia.
From Cty Require Import Base Ty BigFloat Value Hash Ops Refine Wf Json Walk BaseProofs TyProofs WfProofs OpsProofs FuncProofs JsonProofs MsgpackProofs DecodeProofs JsonRoundTrip WalkProofs WalkIdentity.
Open Scope Z_scope.

(* ---------- sizes ---------- *)
Lemma psize_pos p : (1 <= psize p)%nat.
Proof. destruct p; cbn [psize]; lia. Qed.

Lemma psize_seq_in (l : list payload) x : In x l -> (psize x < psize (PSeq l))%nat.
Proof.
  cbn [psize]. induction l as [|y l IH]; intros Hin; [contradiction|]. cbn [fold_right].
  destruct Hin as [<-|Hin]; [lia|]. specialize (IH Hin). lia.
Qed.
Lemma psize_seq_len (l : list payload) : (length l < psize (PSeq l))%nat.
Proof.
  cbn [psize]. induction l as [|y l IH]; cbn [fold_right length]; [lia|]. pose proof (psize_pos y). lia.
Qed.
Lemma psize_map_in (m : list (str * payload)) kv : In kv m -> (psize (snd kv) < psize (PMap m))%nat.
Proof.
  cbn [psize]. induction m as [|y m IH]; intros Hin; [contradiction|].
  destruct Hin as [<-|Hin]; [lia|]. specialize (IH Hin). lia.
Qed.

(* ---------- the member list of a sequence ---------- *)
Lemma in_combine_seq {A} (l : list A) : forall k i x, In (i, x) (combine (seq k (length l)) l) ->
  exists j, i = (k + j)%nat /\ nth_error l j = Some x.
Proof.
  induction l as [|y l IH]; intros k i x Hin; [contradiction|]. cbn [length seq combine] in Hin.
  destruct Hin as [E|Hin]; [injection E as <- <-; exists 0%nat; split; [lia|reflexivity]|].
  destruct (IH (S k) i x Hin) as (j & -> & Hj). exists (S j). split; [lia|exact Hj].
Qed.

Section WalkResolve.
  Variable norm : str -> str.
  Variable unk : bool.

  (* ---------- one step: the step Walk reports for a member resolves to that member ---------- *)
  Lemma list_step e l i x : nth_error l i = Some x -> Z.of_nat i <= int64_max ->
    step_apply norm (SIndex (v_int (Z.of_nat i))) (V (TList e) (PSeq l)) = Ok (V e x).
  Proof.
    intros N M. assert (Hlt : (i < length l)%nat) by (apply nth_error_Some; congruence).
    cbn [step_apply]. unfold index_step_apply. cbn [is_null vp top_payload vty].
    change (vty (v_int (Z.of_nat i))) with TNum. cbn [is_list orb negb].
    unfold has_index_v, binary_marks. cbn [is_marked vp].
    change (is_marked (v_int (Z.of_nat i))) with false. cbn [orb].
    unfold has_index_u. cbn [vty is_dyn vp p_is_unk].
    change (vty (v_int (Z.of_nat i))) with TNum. cbn [is_dyn is_num_ty negb].
    change (p_is_unk (vp (v_int (Z.of_nat i)))) with false. cbn iota.
    rewrite index_of_key_int by lia. cbn [bind].
    assert (E : (Z.of_nat i <? Z.of_nat (length l)) = true) by (apply Z.ltb_lt; lia). rewrite E.
    cbn [unmark_force unmark v_bool vp fst is_known top_payload negb known_and_true].
    unfold index_v, binary_marks. cbn [is_marked vp].
    change (is_marked (v_int (Z.of_nat i))) with false. cbn [orb].
    unfold index_u. cbn [vty is_dyn vp p_is_unk].
    change (vty (v_int (Z.of_nat i))) with TNum. cbn [is_dyn is_num_ty negb].
    change (p_is_unk (vp (v_int (Z.of_nat i)))) with false. cbn iota.
    rewrite index_of_key_int by lia. cbn [bind]. rewrite Nat2Z.id, N. reflexivity.
  Qed.

  Lemma tuple_step es l i te x : nth_error es i = Some te -> nth_error l i = Some x -> Z.of_nat i <= int64_max ->
    step_apply norm (SIndex (v_int (Z.of_nat i))) (V (TTuple es) (PSeq l)) = Ok (V te x).
  Proof.
    intros Ne N M. assert (Hlt : (i < length es)%nat) by (apply nth_error_Some; congruence).
    cbn [step_apply]. unfold index_step_apply. cbn [is_null vp top_payload vty].
    change (vty (v_int (Z.of_nat i))) with TNum. cbn [is_list is_tuple orb negb].
    unfold has_index_v, binary_marks. cbn [is_marked vp].
    change (is_marked (v_int (Z.of_nat i))) with false. cbn [orb].
    unfold has_index_u. cbn [vty is_dyn vp p_is_unk].
    change (vty (v_int (Z.of_nat i))) with TNum. cbn [is_dyn is_num_ty negb].
    change (p_is_unk (vp (v_int (Z.of_nat i)))) with false. cbn iota.
    rewrite index_of_key_int by lia. cbn [bind].
    assert (E : (Z.of_nat i <? Z.of_nat (length es)) = true) by (apply Z.ltb_lt; lia). rewrite E.
    cbn [unmark_force unmark v_bool vp fst is_known top_payload negb known_and_true].
    unfold index_v, binary_marks. cbn [is_marked vp].
    change (is_marked (v_int (Z.of_nat i))) with false. cbn [orb].
    unfold index_u. cbn [vty is_dyn vp p_is_unk].
    change (vty (v_int (Z.of_nat i))) with TNum. cbn [is_dyn is_num_ty negb].
    change (p_is_unk (vp (v_int (Z.of_nat i)))) with false. cbn iota.
    rewrite index_of_key_int by lia. cbn [bind]. rewrite Nat2Z.id, Ne, N. reflexivity.
  Qed.

  Lemma map_step e (m : list (str * payload)) kv : sorted_keys (keys m) = true -> In kv m ->
    step_apply norm (SIndex (v_str (fst kv))) (V (TMap e) (PMap m)) = Ok (V e (snd kv)).
  Proof.
    intros Sm Hin. assert (L : lookup (fst kv) m = Some (snd kv)) by (apply lookup_sorted_self; [apply sorted_NoDup; exact Sm|exact Hin]).
    cbn [step_apply]. unfold index_step_apply, v_str. cbn [is_null vp top_payload vty is_map negb].
    unfold has_index_v, binary_marks. cbn [is_marked vp orb].
    unfold has_index_u. cbn [vty is_dyn vp p_is_unk negb]. rewrite L. cbn [bind].
    cbn [unmark_force unmark v_bool vp fst is_known top_payload negb known_and_true].
    unfold index_v, binary_marks. cbn [is_marked vp orb].
    unfold index_u. cbn [vty is_dyn vp p_is_unk negb]. rewrite L. reflexivity.
  Qed.

  Lemma obj_step attrs (m : list (str * payload)) name ta x :
    lookup name attrs = Some ta -> lookup name m = Some x -> norm name = name ->
    step_apply norm (SAttr name) (V (TObj attrs []) (PMap m)) = Ok (V ta x).
  Proof.
    intros La Lm Nn. cbn [step_apply]. unfold attr_step_apply. cbn [is_null vp top_payload vty]. rewrite La.
    unfold get_attr_v, unary_marks. cbn [is_marked vp]. unfold get_attr_u. cbn [vty is_dyn vp].
    rewrite Nn, La, Lm. reflexivity.
  Qed.

  (* ---------- the whole walk ---------- *)
  Definition resolves (pre : path) (root : value) (qx : path * value) : Prop :=
    exists q', fst qx = pre ++ q' /\ path_apply norm q' root = Ok (snd qx).

  Lemma go_resolve f pre (root : value) (ms : list (step * value)) :
    (forall sm, In sm ms -> step_apply norm (fst sm) root = Ok (snd sm)) ->
    (forall sm, In sm ms -> forall pre', exists l', walk_at f pre' (snd sm) = Ok l' /\ Forall (resolves pre' (snd sm)) l') ->
    exists rest,
      (fix go (l : list (step * value)) : res (list (path * value)) :=
         match l with
         | [] => Ok []
         | sm :: l' => do a <- walk_at f (pre ++ [fst sm]) (snd sm); do b <- go l'; Ok (a ++ b)
         end) ms = Ok rest /\ Forall (resolves pre root) rest.
  Proof.
    induction ms as [|sm ms IH]; intros Hs Hw; [exists []; split; [reflexivity|constructor]|].
    destruct (Hw sm (or_introl eq_refl) (pre ++ [fst sm])) as (a & Ea & Fa).
    destruct IH as (b & Eb & Fb); [intros; apply Hs; right; assumption | intros; apply Hw; right; assumption|].
    exists (a ++ b). split; [rewrite Ea; cbn [bind]; rewrite Eb; reflexivity|].
    apply Forall_app. split; [|exact Fb].
    eapply Forall_impl; [|exact Fa]. intros qx (q' & E1 & E2). exists (fst sm :: q'). split.
    - rewrite E1, <- app_assoc. reflexivity.
    - cbn [path_apply]. rewrite (Hs sm (or_introl eq_refl)). exact E2.
  Qed.

  Theorem walk_resolves_at : forall n t p, RT norm unk t p -> (pdepth p <= n)%nat -> Z.of_nat (psize p) <= int64_max ->
    forall f pre, (n < f)%nat -> exists l, walk_at f pre (V t p) = Ok l /\ Forall (resolves pre (V t p)) l.
  Proof.
    induction n as [|n IH]; intros t p R D Sz f pre Hf.
    { destruct p; cbn [pdepth] in D; lia. }
    destruct f as [|f]; [lia|]. assert (Hf0 : (n < f)%nat) by lia.
    assert (Root : resolves pre (V t p) (pre, V t p)).
    { exists []. split; [cbn [fst]; rewrite app_nil_r; reflexivity|reflexivity]. }
    cbn [walk_at].
    inversion R as [t0 Hk Hd|t0|b|s Hs|e l We Fl|es l F2|e m We Sm Nm Fm|attrs m Sa Na F2]; subst;
      cbn [is_null is_known vp top_payload negb orb unmark_force unmark fst members_of vty bind];
      try (eexists; split; [reflexivity|constructor; [exact Root|constructor]]).
    - (* list *)
      set (ms := map (fun '(i, p0) => (SIndex (v_int (Z.of_nat i)), V e p0)) (combine (seq 0 (length l)) l)).
      assert (Hm : forall sm, In sm ms -> exists j x, nth_error l j = Some x /\ sm = (SIndex (v_int (Z.of_nat j)), V e x)).
      { intros sm Hin. apply in_map_iff in Hin as ([i x] & <- & Hin). apply in_combine_seq in Hin as (j & -> & Hj). exists j, x. split; [exact Hj|reflexivity]. }
      destruct (go_resolve f pre (V (TList e) (PSeq l)) ms) as (rest & Er & Fr).
      + intros sm Hin. destruct (Hm sm Hin) as (j & x & Hj & ->). cbn [fst snd]. apply list_step; [exact Hj|].
        assert (j < length l)%nat by (apply nth_error_Some; congruence). pose proof (psize_seq_len l). lia.
      + intros sm Hin pre'. destruct (Hm sm Hin) as (j & x & Hj & ->). cbn [snd].
        apply nth_error_In in Hj. apply IH; [rewrite Forall_forall in Fl; apply Fl; exact Hj| | |exact Hf0].
        * assert (Dm : (S (fold_right (fun y k => Nat.max (pdepth y) k) 0 l) <= S n)%nat) by exact D.
          pose proof (depth_in_list l x Hj). lia.
        * pose proof (psize_seq_in l x Hj). lia.
      + rewrite Er. cbn [bind]. eexists; split; [reflexivity|constructor; [exact Root|exact Fr]].
    - (* tuple *)
      assert (L : length es = length l) by (eapply Forall2_length; eauto).
      set (ms := map (fun '(i, (te0, p0)) => (SIndex (v_int (Z.of_nat i)), V te0 p0)) (combine (seq 0 (length l)) (combine es l))).
      assert (Hm : forall sm, In sm ms -> exists j te x, nth_error es j = Some te /\ nth_error l j = Some x /\ RT norm unk te x /\ sm = (SIndex (v_int (Z.of_nat j)), V te x)).
      { intros sm Hin. apply in_map_iff in Hin as ([i [te x]] & <- & Hin).
        assert (Lc : length (combine es l) = length l) by (rewrite combine_length, L, Nat.min_id; reflexivity).
        rewrite <- Lc in Hin. apply in_combine_seq in Hin as (j & -> & Hj). exists j, te, x.
        assert (Hboth : nth_error es j = Some te /\ nth_error l j = Some x /\ RT norm unk te x).
        { clear -F2 Hj. revert j Hj. induction F2 as [|a b la lb Rab _ IHf]; intros j Hj; [destruct j; discriminate|].
          destruct j as [|j]; cbn [combine nth_error] in *; [injection Hj as <- <-; auto|apply IHf; exact Hj]. }
        destruct Hboth as (H1 & H2 & H3). repeat split; assumption. }
      destruct (go_resolve f pre (V (TTuple es) (PSeq l)) ms) as (rest & Er & Fr).
      + intros sm Hin. destruct (Hm sm Hin) as (j & te & x & Hje & Hj & _ & ->). cbn [fst snd]. apply tuple_step; [exact Hje|exact Hj|].
        assert (j < length l)%nat by (apply nth_error_Some; congruence). pose proof (psize_seq_len l). lia.
      + intros sm Hin pre'. destruct (Hm sm Hin) as (j & te & x & _ & Hj & Rx & ->). cbn [snd].
        apply nth_error_In in Hj. apply IH; [exact Rx| | |exact Hf0].
        * assert (Dm : (S (fold_right (fun y k => Nat.max (pdepth y) k) 0 l) <= S n)%nat) by exact D.
          pose proof (depth_in_list l x Hj). lia.
        * pose proof (psize_seq_in l x Hj). lia.
      + rewrite Er. cbn [bind]. eexists; split; [reflexivity|constructor; [exact Root|exact Fr]].
    - (* map *)
      set (ms := map (fun kv : str * payload => (SIndex (v_str (fst kv)), V e (snd kv))) m).
      destruct (go_resolve f pre (V (TMap e) (PMap m)) ms) as (rest & Er & Fr).
      + intros sm Hin. apply in_map_iff in Hin as (kv & <- & Hin). cbn [fst snd]. apply map_step; assumption.
      + intros sm Hin pre'. apply in_map_iff in Hin as (kv & <- & Hin). cbn [snd].
        apply IH; [rewrite Forall_forall in Fm; apply Fm; exact Hin| | |exact Hf0].
        * assert (Dm : (S ((fix go (l : list (str * payload)) : nat :=
                              match l with [] => 0%nat | kv :: l' => Nat.max (pdepth (snd kv)) (go l') end) m) <= S n)%nat) by exact D.
          pose proof (depth_in_map m kv Hin). lia.
        * pose proof (psize_map_in m kv Hin). lia.
      + rewrite Er. cbn [bind]. eexists; split; [reflexivity|constructor; [exact Root|exact Fr]].
    - (* object *)
      set (ms := map (fun kv : str * payload => (SAttr (fst kv), V (match lookup (fst kv) attrs with Some ta => ta | None => TDyn end) (snd kv))) m).
      pose proof (F2_keys (RT norm unk) attrs m F2) as Km.
      assert (Skm : sorted_keys (keys m) = true) by (rewrite Km; exact Sa).
      assert (Hkv : forall kv, In kv m -> exists ta, lookup (fst kv) attrs = Some ta /\ RT norm unk ta (snd kv)).
      { intros kv Hin. assert (Hx : exists kt, In kt attrs /\ fst kv = fst kt /\ RT norm unk (snd kt) (snd kv)).
        { clear -F2 Hin. induction F2 as [|a b la lb [E Rab] _ IHf]; [contradiction|].
          destruct Hin as [<-|Hin]; [exists a; split; [left; reflexivity|split; assumption]|].
          destruct (IHf Hin) as (kt & I1 & I2). exists kt. split; [right; exact I1|exact I2]. }
        destruct Hx as (kt & Hk & Ek & Rk). exists (snd kt). split; [|exact Rk].
        rewrite Ek. apply lookup_sorted_self; [apply sorted_NoDup; exact Sa|exact Hk]. }
      destruct (go_resolve f pre (V (TObj attrs []) (PMap m)) ms) as (rest & Er & Fr).
      + intros sm Hin. apply in_map_iff in Hin as (kv & <- & Hin). cbn [fst snd].
        destruct (Hkv kv Hin) as (ta & La & _). rewrite La. apply obj_step; [exact La| |].
        * apply lookup_sorted_self; [apply sorted_NoDup; exact Skm|exact Hin].
        * apply Na. rewrite <- Km. unfold keys. apply in_map. exact Hin.
      + intros sm Hin pre'. apply in_map_iff in Hin as (kv & <- & Hin). cbn [snd].
        destruct (Hkv kv Hin) as (ta & La & Rk). rewrite La.
        apply IH; [exact Rk| | |exact Hf0].
        * assert (Dm : (S ((fix go (l : list (str * payload)) : nat :=
                              match l with [] => 0%nat | kv :: l' => Nat.max (pdepth (snd kv)) (go l') end) m) <= S n)%nat) by exact D.
          pose proof (depth_in_map m kv Hin). lia.
        * pose proof (psize_map_in m kv Hin). lia.
      + rewrite Er. cbn [bind]. eexists; split; [reflexivity|constructor; [exact Root|exact Fr]].
  Qed.

  (* the public entry point, with its own fuel *)
  Theorem walk_resolves t p : RT norm unk t p -> Z.of_nat (psize p) <= int64_max ->
    exists l, walk (V t p) = Ok l /\
      forall q x, In (q, x) l -> path_apply norm q (V t p) = Ok x.
  Proof.
    intros R Sz. unfold walk. cbn [vp].
    destruct (walk_resolves_at (pdepth p) t p R (le_n _) Sz (S (psize p)) []) as (l & El & Fl).
    { pose proof (pdepth_le_psize p). lia. }
    exists l. split; [exact El|]. intros q x Hin. rewrite Forall_forall in Fl.
    destruct (Fl (q, x) Hin) as (q' & E1 & E2). cbn [fst snd app] in E1, E2. subst q'. exact E2.
  Qed.
End WalkResolve.
