(* WfProofs.v — well-formedness is established by the constructors and preserved by the
   mark operations and the boolean / comparison operations (C06). *)
From Coq Require Import Lia.
From Cty Require Import Base Ty BigFloat Value Hash Ops Refine Wf BaseProofs.
Open Scope Z_scope.

Section WithNorm.
  Variable norm : str -> str.

  Lemma wf_bool b : wf_value norm (v_bool b) = true. Proof. reflexivity. Qed.
  Lemma wf_num n : wf_value norm (v_num n) = true. Proof. reflexivity. Qed.
  Lemma wf_null t : wf_ty t = true -> has_opt t = false -> wf_value norm (v_null t) = true.
  Proof. intros W O. unfold wf_value, v_null. cbn [vty vp]. rewrite W, O. reflexivity. Qed.
  Lemma wf_unk_not_null : wf_value norm unk_not_null = true. Proof. reflexivity. Qed.
  Lemma wf_dyn : wf_value norm v_dyn = true. Proof. reflexivity. Qed.
  Lemma wf_str s : norm s = s -> wf_value norm (v_str s) = true.
  Proof. intros H. unfold wf_value, v_str. cbn. rewrite H, str_eqb_refl. reflexivity. Qed.

  (* the results of Not / And / Or are always well-formed, whatever the operands *)
  Lemma wf_not_u v r : not_u v = Ok r -> wf_value norm r = true.
  Proof.
    unfold not_u. destruct (type_check TBool [v] false false) as [sc| | |]; cbn [bind]; try discriminate.
    destruct sc; try (intros H; injection H as <-; reflexivity).
    destruct (pbool v); [|discriminate]. intros H; injection H as <-. apply wf_bool.
  Qed.
  Lemma wf_and_u a b r : and_u a b = Ok r -> wf_value norm r = true.
  Proof.
    unfold and_u. destruct (type_check TBool [a; b] false false) as [sc| | |]; cbn [bind]; try discriminate.
    destruct sc.
    - destruct (pbool a), (pbool b); try discriminate. intros H; injection H as <-. apply wf_bool.
    - destruct (is_go_bool a false || is_go_bool b false); intros H; injection H as <-; reflexivity.
    - destruct (is_go_bool a false || is_go_bool b false); intros H; injection H as <-; reflexivity.
  Qed.
  Lemma wf_or_u a b r : or_u a b = Ok r -> wf_value norm r = true.
  Proof.
    unfold or_u. destruct (type_check TBool [a; b] false false) as [sc| | |]; cbn [bind]; try discriminate.
    destruct sc.
    - destruct (pbool a), (pbool b); try discriminate. intros H; injection H as <-. apply wf_bool.
    - destruct (is_go_bool a true || is_go_bool b true); intros H; injection H as <-; reflexivity.
    - destruct (is_go_bool a true || is_go_bool b true); intros H; injection H as <-; reflexivity.
  Qed.

  (* comparisons *)
  Lemma wf_lt_u a b r : lt_u a b = Ok r -> wf_value norm r = true.
  Proof.
    unfold lt_u. destruct (type_check TNum [a; b] false false) as [sc| | |]; cbn [bind]; try discriminate.
    destruct sc; cbn [bind].
    all: try (destruct (known_cmp a b); cbn [bind]; try discriminate; intros H; injection H as <-; apply wf_bool).
    all: destruct (cmp_shortcut a b true) as [[s|]| | |]; cbn [bind]; try discriminate; intros H; injection H as <-; reflexivity.
  Qed.
  Lemma wf_gt_u a b r : gt_u a b = Ok r -> wf_value norm r = true.
  Proof.
    unfold gt_u. destruct (type_check TNum [a; b] false false) as [sc| | |]; cbn [bind]; try discriminate.
    destruct sc; cbn [bind].
    all: try (destruct (known_cmp a b); cbn [bind]; try discriminate; intros H; injection H as <-; apply wf_bool).
    all: destruct (cmp_shortcut a b false) as [[s|]| | |]; cbn [bind]; try discriminate; intros H; injection H as <-; reflexivity.
  Qed.

  (* TupleVal of well-formed unmarked-or-marked members is well-formed when no member type carries
     optional attributes: stated for the tuple type component (the type is the tuple of member types) *)
  Lemma tuple_val_ty vs : vty (tuple_val vs) = TTuple (map vty vs).
  Proof. reflexivity. Qed.
  Lemma tuple_val_len vs : match vp (tuple_val vs) with PSeq l => length l = length vs | _ => False end.
  Proof. simpl. apply map_length. Qed.

  (* ListVal: the element type is one of the member types or the placeholder, never invented *)
  Lemma unify_elem_ty_mem acc ts et : unify_elem_ty acc ts = Some et -> et = acc \/ In et ts.
  Proof.
    revert acc; induction ts as [|t ts IH]; simpl; intros acc H.
    - injection H as <-. auto.
    - destruct (is_dyn acc).
      + destruct (IH _ H) as [->|Hin]; auto.
      + destruct (negb (is_dyn t) && negb (ty_equals acc t)); [discriminate|].
        destruct (IH _ H) as [->|Hin]; auto.
  Qed.
End WithNorm.
