(* RawEq.v — C03: on the structural fragment [RT], at every depth, raw equality answers true only for
   identical values; with reflexivity (RawRefl) it is therefore an equivalence relation there, and equal
   values have the same hash because they are the same value. *)
From Coq Require Import Lia.
From Cty Require Import Base Ty BigFloat Value Hash Ops Refine Wf Json Walk BaseProofs TyProofs WfProofs OpsProofs FuncProofs JsonProofs MsgpackProofs DecodeProofs JsonRoundTrip MpRoundTrip WalkProofs WalkIdentity WfRT RawRefl.
From Cty Require Import Msgpack.
Open Scope Z_scope.

Lemma bind_and_true (r k : res bool) : (do e <- r; do rest <- k; Ok (e && rest)) = Ok true -> r = Ok true /\ k = Ok true.
Proof. destruct r as [[]| | |]; destruct k as [[]| | |]; cbn; intros H; try discriminate; auto. Qed.

Lemma all_ok_true {A} (f : A -> A -> res bool) : forall la lb, length la = length lb ->
  all_ok f la lb = Ok true -> Forall2 (fun x y => f x y = Ok true) la lb.
Proof.
  induction la as [|x la IH]; intros [|y lb] L H; try discriminate; [constructor|].
  cbn [all_ok] in H. destruct (f x y) as [[]| | |] eqn:E; cbn [bind] in H; try discriminate.
  constructor; [exact E|apply IH; [injection L as L; exact L|exact H]].
Qed.

Section RawEq.
  Variable norm : str -> str.
  Variable unk : bool.

  Theorem raw_true_eq_at : forall n t p q, RT norm unk t p -> RT norm unk t q -> wf_ty t = true -> (pdepth p <= n)%nat ->
    forall f, h_raw (hfns_at f) (V t p) (V t q) = Ok true -> p = q.
  Proof.
    induction n as [|n IH]; intros t p q R1 R2 W D f H.
    { destruct p; cbn [pdepth] in D; lia. }
    destruct f as [|f]; [discriminate H|].
    change (h_raw (hfns_at (S f))) with (raw_step (hfns_at f)) in H.
    unfold raw_step in H. cbn [vty] in H. rewrite (ty_equals_refl t W) in H. cbn [negb] in H.
    inversion R1 as [t0 Hk Hd|t0|b|s Hs|e l We Fl|es l F2|e m We Sm Nm Fm|attrs m Sa Na F2]; subst.
    - inversion R2; subst; cbn [marks_of unmark unmark_force vp vty snd fst list_eqb negb] in H; try discriminate H; reflexivity.
    - inversion R2; subst; cbn [marks_of unmark unmark_force vp vty snd fst list_eqb negb] in H; try discriminate H; reflexivity.
    - inversion R2; subst; cbn [marks_of unmark unmark_force vp vty snd fst list_eqb negb] in H; try discriminate H.
      injection H as H. apply Bool.eqb_prop in H. subst. reflexivity.
    - inversion R2; subst; cbn [marks_of unmark unmark_force vp vty snd fst list_eqb negb] in H; try discriminate H.
      injection H as H. apply str_eqb_eq in H. subst. reflexivity.
    - (* list *)
      inversion R2 as [| | | |e2 l2 We2 Fl2| | |]; subst; cbn [marks_of unmark unmark_force vp vty snd fst list_eqb negb] in H; try discriminate H.
      destruct (Nat.eqb (length l) (length l2)) eqn:L; cbn [negb] in H; [|discriminate H].
      apply Nat.eqb_eq in L. apply all_ok_true in H; [|exact L]. f_equal.
      assert (Dall : forall x, In x l -> (pdepth x <= n)%nat).
      { intros x Hin. assert (Dm : (S (fold_right (fun y k => Nat.max (pdepth y) k) 0 l) <= S n)%nat) by exact D.
        pose proof (depth_in_list l x Hin). lia. }
      rewrite Forall_forall in Fl, Fl2. clear D R1 R2 L.
      induction H as [|x y la lb Hxy _ IHf]; [reflexivity|]. f_equal.
      + eapply IH; [apply Fl; left; reflexivity|apply Fl2; left; reflexivity|exact We|apply Dall; left; reflexivity|exact Hxy].
      + apply IHf; intros; [apply Fl|apply Fl2|apply Dall]; right; assumption.
    - (* tuple *)
      inversion R2 as [| | | | |es2 l2 F22| |]; subst; cbn [marks_of unmark unmark_force vp vty snd fst list_eqb negb] in H; try discriminate H.
      f_equal.
      assert (Dall : forall x, In x l -> (pdepth x <= n)%nat).
      { intros x Hin. assert (Dm : (S (fold_right (fun y k => Nat.max (pdepth y) k) 0 l) <= S n)%nat) by exact D.
        pose proof (depth_in_list l x Hin). lia. }
      cbn [wf_ty] in W. clear D R1 R2. revert l2 F22 H.
      induction F2 as [|te x es' l' Rx _ IHf]; intros l2 F22 H; inversion F22 as [|te2 y es2 l2' Ry F22']; subst; [reflexivity|].
      cbn [forallb] in W. apply andb_true_iff in W as [W1 W2].
      apply bind_and_true in H as [H1 H2]. f_equal.
      + eapply IH; [exact Rx|exact Ry|exact W1|apply Dall; left; reflexivity|exact H1].
      + apply IHf; [exact W2|intros y0 Hy; apply Dall; right; exact Hy|exact F22'|exact H2].
    - (* map *)
      inversion R2 as [| | | | | |e2 m2 We2 Sm2 Nm2 Fm2|]; subst; cbn [marks_of unmark unmark_force vp vty snd fst list_eqb negb] in H; try discriminate H.
      destruct (Nat.eqb (length m) (length m2)) eqn:L; cbn [negb] in H; [|discriminate H].
      apply Nat.eqb_eq in L. f_equal.
      assert (Hsub : forall kv, In kv m -> In kv m2).
      { assert (G : forall sub, (forall kv, In kv sub -> In kv m) ->
           (fix go (l : list (str * payload)) : res bool :=
              match l with
              | [] => Ok true
              | kv :: l' => match lookup (fst kv) m2 with
                            | None => Ok false
                            | Some y => do e' <- h_raw (hfns_at f) (V e (snd kv)) (V e y); do rest <- go l'; Ok (e' && rest)
                            end
              end) sub = Ok true -> forall kv, In kv sub -> In kv m2).
        { induction sub as [|kv0 sub IHs]; intros Hs Hg kv Hin; [contradiction|].
          destruct (lookup (fst kv0) m2) as [y|] eqn:Ly; [|discriminate Hg].
          apply bind_and_true in Hg as [H1 H2].
          destruct Hin as [<-|Hin]; [|apply IHs; [intros; apply Hs; right; assumption|exact H2|exact Hin]].
          apply lookup_In in Ly.
          assert (E : snd kv0 = y).
          { eapply IH; [rewrite Forall_forall in Fm; apply Fm; apply Hs; left; reflexivity
                       |rewrite Forall_forall in Fm2; apply (Fm2 (fst kv0, y)); exact Ly|exact We| |exact H1].
            assert (Dm : (S ((fix go (l : list (str * payload)) : nat :=
                                match l with [] => 0%nat | kv :: l' => Nat.max (pdepth (snd kv)) (go l') end) m) <= S n)%nat) by exact D.
            pose proof (depth_in_map m kv0 (Hs kv0 (or_introl eq_refl))). lia. }
          destruct kv0 as [k0 x0]. cbn [fst snd] in *. subst y. exact Ly. }
        apply (G m); [auto|exact H]. }
      apply pairs_eq_of_keys; [apply sorted_NoDup; exact Sm2| |exact Hsub].
      apply sorted_incl_eq; [exact Sm|exact Sm2|unfold keys; rewrite !map_length; exact L|].
      intros k Hk. apply in_map_iff in Hk as (kv & <- & Hin). apply in_map. apply Hsub. exact Hin.
    - (* object *)
      inversion R2 as [| | | | | | |attrs2 m2 Sa2 Na2 F22]; subst; cbn [marks_of unmark unmark_force vp vty snd fst list_eqb negb] in H; try discriminate H.
      f_equal.
      pose proof (F2_keys (RT norm unk) attrs m F2) as Km.
      pose proof (F2_keys (RT norm unk) attrs m2 F22) as Km2.
      assert (Skm : sorted_keys (keys m) = true) by (rewrite Km; exact Sa).
      assert (Skm2 : sorted_keys (keys m2) = true) by (rewrite Km2; exact Sa).
      apply pairs_eq_of_keys; [apply sorted_NoDup; exact Skm2|unfold keys in *; congruence|].
      intros kv Hin.
      destruct (obj_member_ty (RT norm unk) attrs m Sa F2 kv Hin) as (ta & La & Rk).
      assert (Hkt : In (fst kv, ta) attrs) by (apply lookup_In; exact La).
      assert (G : forall sub, (forall kt, In kt sub -> In kt attrs) ->
         (fix go (l : list (str * ty)) : res bool :=
            match l with
            | [] => Ok true
            | kt :: l' =>
                match lookup (fst kt) m, lookup (fst kt) m2 with
                | Some x, Some y => do e <- h_raw (hfns_at f) (V (snd kt) x) (V (snd kt) y);
                                    do rest <- go l'; Ok (e && rest)
                | _, _ => Panic
                end
            end) sub = Ok true -> In (fst kv, ta) sub ->
            exists y, lookup (fst kv) m2 = Some y /\ h_raw (hfns_at f) (V ta (snd kv)) (V ta y) = Ok true).
      { induction sub as [|kt sub IHs]; intros Hs Hg Hi; [contradiction|].
        destruct (lookup (fst kt) m) as [x|] eqn:Lx; [|discriminate Hg].
        destruct (lookup (fst kt) m2) as [y|] eqn:Ly; [|discriminate Hg].
        apply bind_and_true in Hg as [H1 H2].
        destruct Hi as [->|Hi]; [|apply IHs; [intros; apply Hs; right; assumption|exact H2|exact Hi]].
        cbn [fst snd] in *. exists y. split; [exact Ly|].
        assert (Ex : lookup (fst kv) m = Some (snd kv)) by (apply lookup_sorted_self; [apply sorted_NoDup; exact Skm|exact Hin]).
        rewrite Ex in Lx. injection Lx as <-. exact H1. }
      destruct (G attrs (fun _ h => h) H Hkt) as (y & Ly & Hy).
      apply lookup_In in Ly.
      destruct (obj_member_ty (RT norm unk) attrs m2 Sa F22 (fst kv, y) Ly) as (ta2 & La2 & Rk2).
      cbn [fst snd] in La2, Rk2. rewrite La in La2. injection La2 as <-.
      assert (E : snd kv = y).
      { eapply IH; [exact Rk|exact Rk2|eapply (wf_ty_obj_attr attrs [] (fst kv, ta)); eauto| |exact Hy].
        assert (Dm : (S ((fix go (l : list (str * payload)) : nat :=
                            match l with [] => 0%nat | kv :: l' => Nat.max (pdepth (snd kv)) (go l') end) m) <= S n)%nat) by exact D.
        pose proof (depth_in_map m kv Hin). lia. }
      destruct kv as [k0 x0]. cbn [fst snd] in *. subst y. exact Ly.
  Qed.

  (* public entry point: raw equality on the fragment is identity, hence an equivalence relation *)
  Theorem raw_equals_true_eq t p q : RT norm unk t p -> RT norm unk t q -> wf_ty t = true ->
    raw_equals (V t p) (V t q) = Ok true -> p = q.
  Proof. intros R1 R2 W H. unfold raw_equals in H. exact (raw_true_eq_at (pdepth p) t p q R1 R2 W (le_n _) _ H). Qed.

  Theorem raw_equals_iff t p q : RT norm unk t p -> RT norm unk t q -> wf_ty t = true ->
    (raw_equals (V t p) (V t q) = Ok true <-> p = q).
  Proof.
    intros R1 R2 W. split; [apply raw_equals_true_eq; assumption|].
    intros <-. apply (raw_equals_refl norm unk); assumption.
  Qed.

  Theorem raw_equals_sym t p q : RT norm unk t p -> RT norm unk t q -> wf_ty t = true ->
    raw_equals (V t p) (V t q) = Ok true -> raw_equals (V t q) (V t p) = Ok true.
  Proof. intros R1 R2 W H. apply raw_equals_true_eq in H; try assumption. subst q. apply (raw_equals_refl norm unk); assumption. Qed.

  Theorem raw_equals_trans t p q r : RT norm unk t p -> RT norm unk t q -> RT norm unk t r -> wf_ty t = true ->
    raw_equals (V t p) (V t q) = Ok true -> raw_equals (V t q) (V t r) = Ok true -> raw_equals (V t p) (V t r) = Ok true.
  Proof. intros R1 R2 R3 W H1 H2. apply raw_equals_true_eq in H1; try assumption. subst q. exact H2. Qed.

  Theorem raw_equal_same_hash t p q : RT norm unk t p -> RT norm unk t q -> wf_ty t = true ->
    raw_equals (V t p) (V t q) = Ok true -> hash_value (V t p) = hash_value (V t q).
  Proof. intros R1 R2 W H. apply raw_equals_true_eq in H; try assumption. subst q. reflexivity. Qed.
End RawEq.

(* the codec round trips in the property's own terms: what comes back is RawEquals to what went in *)
Corollary json_roundtrip_raw_equal norm t p : RT norm false t p -> wf_ty t = true ->
  exists j r, json_marshal (V t p) t = Ok j /\ json_unmarshal norm j t = Ok r /\ raw_equals r (V t p) = Ok true.
Proof.
  intros R W. destruct (json_roundtrip norm t p R) as (j & E1 & E2). exists j, (V t p).
  split; [exact E1|split; [exact E2|apply (raw_equals_refl norm false); assumption]].
Qed.
Corollary mp_roundtrip_raw_equal norm unk trunc jp t p : RT norm unk t p -> wf_ty t = true ->
  exists m r, mp_marshal trunc (V t p) t = Ok m /\ mp_unmarshal norm jp m t = Ok r /\ raw_equals r (V t p) = Ok true.
Proof.
  intros R W. destruct (mp_roundtrip norm unk trunc jp t p R) as (m & E1 & E2). exists m, (V t p).
  split; [exact E1|split; [exact E2|apply (raw_equals_refl norm unk); assumption]].
Qed.
Corollary identity_transform_raw_equal norm unk t p : RT norm unk t p -> wf_ty t = true ->
  exists r, transform norm (fun _ x => Ok x) (V t p) = Ok r /\ raw_equals r (V t p) = Ok true.
Proof.
  intros R W. exists (V t p). split; [apply (transform_identity norm unk); exact R|apply (raw_equals_refl norm unk); assumption].
Qed.
