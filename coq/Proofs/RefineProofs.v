(* RefineProofs.v — the refinement builder (C05). *)
From Coq Require Import Lia.
From Cty Require Import Base Ty BigFloat Value Hash Ops Refine SafePrefix BaseProofs.
From Cty Require Import Consts.
Open Scope Z_scope.

Ltac peel H :=
  repeat (first
    [ discriminate H
    | match type of H with
      | bind ?x _ = Ok _ => let E := fresh "E" in destruct x eqn:E; cbn [bind] in H
      | (if ?c then _ else _) = Ok _ => let E := fresh "E" in destruct c eqn:E
      | match ?x with _ => _ end = Ok _ => let E := fresh "E" in destruct x eqn:E
      end ]).

(* every builder call keeps the original value and the marks *)
Lemma with_wip_orig b r : b_orig (with_wip b r) = b_orig b /\ b_marks (with_wip b r) = b_marks b.
Proof. split; reflexivity. Qed.

Lemma rb_step_orig norm b c b' : rb_step norm b c = Ok b' -> b_orig b' = b_orig b /\ b_marks b' = b_marks b.
Proof.
  destruct c; simpl; intros H.
  - unfold rb_not_null in H. peel H; injection H as <-; auto using with_wip_orig.
  - unfold rb_null in H. peel H; injection H as <-; auto using with_wip_orig.
  - unfold rb_num_lower in H. peel H; injection H as <-; auto using with_wip_orig.
  - unfold rb_num_upper in H. peel H; injection H as <-; auto using with_wip_orig.
  - unfold rb_len_lower in H. peel H; injection H as <-; auto using with_wip_orig.
  - unfold rb_len_upper in H. peel H; injection H as <-; auto using with_wip_orig.
  - unfold rb_prefix_full in H. peel H; injection H as <-; auto using with_wip_orig.
Qed.

Lemma rb_steps_orig norm cs : forall b b', rb_steps norm b cs = Ok b' -> b_orig b' = b_orig b /\ b_marks b' = b_marks b.
Proof.
  induction cs as [|c cs IH]; simpl; intros b b' H.
  - injection H as <-. auto.
  - destruct (rb_step norm b c) as [b1| | |] eqn:E; cbn [bind] in H; try discriminate.
    destruct (rb_step_orig _ _ _ _ E) as [O M]. destruct (IH _ _ H) as [O' M']. split; congruence.
Qed.

Lemma with_marks_ty v ms : vty (with_marks v ms) = vty v.
Proof. unfold with_marks. destruct (unmark v) as [u own]. destruct (marks_union own ms); reflexivity. Qed.

Lemma unmark_ty v : vty (fst (unmark v)) = vty v.
Proof. unfold unmark. destruct (vp v); reflexivity. Qed.

Lemma refine_orig_ty v : vty (b_orig (refine v)) = vty v.
Proof.
  unfold refine. pose proof (unmark_ty v) as U. destruct (unmark v) as [u ms]. simpl in U.
  destruct (vp u) eqn:P; try (cbn [b_orig]; exact U).
  destruct r; cbn [b_orig]; try exact U.
  destruct (is_dyn (vty u)) eqn:D; [|exact U].
  rewrite <- U. destruct (vty u); try discriminate. reflexivity.
Qed.

(* ---------- the dynamic value ignores refinement ---------- *)
Lemma rb_step_dyn norm b c : is_dynval (b_orig b) = true -> rb_step norm b c = Ok b.
Proof.
  intros D. destruct c; simpl;
  [unfold rb_not_null|unfold rb_null|unfold rb_num_lower|unfold rb_num_upper|unfold rb_len_lower|unfold rb_len_upper|unfold rb_prefix_full];
  unfold refineable; rewrite D; reflexivity.
Qed.

Lemma rb_steps_dyn norm cs : forall b, is_dynval (b_orig b) = true -> rb_steps norm b cs = Ok b.
Proof. induction cs as [|c cs IH]; simpl; intros b D; auto. rewrite rb_step_dyn by exact D. simpl. apply IH. exact D. Qed.

Theorem dynamic_ignored norm cs : rb_run norm v_dyn cs = Ok v_dyn.
Proof. unfold rb_run. rewrite rb_steps_dyn by reflexivity. reflexivity. Qed.

(* a marked dynamic value keeps its marks and is otherwise unchanged *)
Theorem dynamic_ignored_marked norm cs m ms :
  rb_run norm (V TDyn (PMarked (m :: ms) (PUnk RNone))) cs = Ok (with_marks v_dyn (m :: ms)).
Proof. unfold rb_run. rewrite rb_steps_dyn by reflexivity. reflexivity. Qed.

(* ---------- refining a known value returns that value or is rejected ---------- *)
Lemma unmark_unmarked v : is_marked v = false -> unmark v = (v, []).
Proof. unfold is_marked, unmark. destruct v as [t p]. destruct p; simpl; intros H; try discriminate; reflexivity. Qed.

Lemma with_marks_nil v : is_marked v = false -> with_marks v [] = v.
Proof. intros H. unfold with_marks. rewrite unmark_unmarked by exact H. reflexivity. Qed.

Lemma refine_known_orig v : is_marked v = false -> is_known v = true -> b_orig (refine v) = v /\ b_marks (refine v) = [].
Proof.
  intros M K. unfold refine. rewrite unmark_unmarked by exact M.
  unfold is_known in K. unfold is_marked in M.
  destruct (vp v) eqn:P; try discriminate; split; reflexivity.
Qed.

Theorem known_unchanged norm v cs v' : is_marked v = false -> is_known v = true ->
  rb_run norm v cs = Ok v' -> v' = v.
Proof.
  intros M K. unfold rb_run. destruct (rb_steps norm (refine v) cs) as [b| | |] eqn:E; cbn [bind]; try discriminate.
  destruct (rb_steps_orig _ _ _ _ E) as [O Mk]. destruct (refine_known_orig v M K) as [O2 M2].
  unfold rb_new_value. rewrite O, O2, K. cbn [orb]. rewrite Mk, M2. intros H. injection H as <-. apply with_marks_nil. exact M.
Qed.

(* ---------- contradictions about nullness are rejected ---------- *)
Theorem notnull_on_null_rejected norm t cs : is_dyn t = false -> rb_run norm (v_null t) (RcNotNull :: cs) = Panic.
Proof.
  intros D. unfold rb_run. cbn [rb_steps rb_step]. unfold rb_not_null, refineable.
  assert (O : b_orig (refine (v_null t)) = v_null t) by (destruct t; reflexivity).
  rewrite O. replace (is_dynval (v_null t)) with false by (destruct t; reflexivity).
  destruct t; try discriminate; reflexivity.
Qed.

Lemma null_after_notnull b : refineable b = Ok true -> rfn_null (wip_of b) = TF -> rb_null b = Panic.
Proof. intros R N. unfold rb_null. rewrite R. cbn [bind negb]. rewrite N. destruct (is_known (b_orig b) && negb (is_null (b_orig b))); reflexivity. Qed.

Lemma notnull_after_null b : refineable b = Ok true -> rfn_null (wip_of b) = TT -> rb_not_null b = Panic.
Proof. intros R N. unfold rb_not_null. rewrite R. cbn [bind negb]. rewrite N. destruct (is_known (b_orig b) && is_null (b_orig b)); reflexivity. Qed.

(* ---------- collection length bounds: the tighter of the two is kept, crossing is rejected ---------- *)
Theorem len_lower_tighter b n lo hi mn b' :
  is_known (b_orig b) = false -> is_dynval (b_orig b) = false -> b_wip b = Some (RColl n lo hi) -> lo <= hi ->
  rb_len_lower b mn = Ok b' -> b_wip b' = Some (RColl n (Z.max lo mn) hi) /\ Z.max lo mn <= hi.
Proof.
  intros K D W L. unfold rb_len_lower, refineable, wip_of. rewrite D, W, K. cbn [bind negb].
  destruct (mn <? lo) eqn:A.
  - intros H. injection H as <-. apply Z.ltb_lt in A. rewrite W. rewrite Z.max_l by lia. split; [reflexivity|lia].
  - destruct (hi <? mn) eqn:B; [discriminate|]. intros H. injection H as <-. apply Z.ltb_ge in A, B.
    rewrite Z.max_r by lia. split; [reflexivity|lia].
Qed.

Theorem len_lower_crossing_rejected b n lo hi mn :
  is_known (b_orig b) = false -> is_dynval (b_orig b) = false -> b_wip b = Some (RColl n lo hi) -> lo <= hi ->
  hi < mn -> rb_len_lower b mn = Panic.
Proof.
  intros K D W L C. unfold rb_len_lower, refineable, wip_of. rewrite D, W, K. cbn [bind negb].
  destruct (mn <? lo) eqn:A; [apply Z.ltb_lt in A; lia|].
  destruct (hi <? mn) eqn:B; [reflexivity|apply Z.ltb_ge in B; lia].
Qed.

Theorem len_upper_tighter b n lo hi mx b' :
  is_known (b_orig b) = false -> is_dynval (b_orig b) = false -> b_wip b = Some (RColl n lo hi) -> lo <= hi ->
  rb_len_upper b mx = Ok b' -> b_wip b' = Some (RColl n lo (Z.min hi mx)) /\ lo <= Z.min hi mx.
Proof.
  intros K D W L. unfold rb_len_upper, refineable, wip_of. rewrite D, W, K. cbn [bind negb].
  destruct (hi <? mx) eqn:A.
  - intros H. injection H as <-. apply Z.ltb_lt in A. rewrite W. rewrite Z.min_l by lia. split; [reflexivity|lia].
  - destruct (mx <? lo) eqn:B; [discriminate|]. intros H. injection H as <-. apply Z.ltb_ge in A, B.
    rewrite Z.min_r by lia. split; [reflexivity|lia].
Qed.

(* ---------- the safe prefix is a byte prefix of the normalised form of every extension ---------- *)
Lemma is_prefix_firstn n (q : str) : is_prefix (firstn n q) q = true.
Proof.
  revert n; induction q as [|x q IH]; intros [|n]; simpl; auto. rewrite N.eqb_refl. simpl. apply IH.
Qed.
Lemma is_prefix_trans (a b c : str) : is_prefix a b = true -> is_prefix b c = true -> is_prefix a c = true.
Proof.
  revert b c; induction a as [|x a IH]; intros [|y b] [|z c]; simpl; try congruence.
  rewrite !andb_true_iff, !N.eqb_eq. intros [-> H1] [-> H2]. split; [reflexivity|eauto].
Qed.
Lemma firstn_all_eq (q : str) : firstn (length q) q = q.
Proof. apply firstn_all. Qed.

Section SafePrefix.
  Variable o : oracles.
  Variable delims : list N.
  (* the two library laws the theorem is relative to (tested against x/text and textseg on every run):
     1. text before NFC's last boundary is unaffected by anything appended;
     2. a text without any boundary is a single grapheme cluster that is not a safe delimiter. *)
  Hypothesis boundary_law : forall p s, let q := o.(o_norm) p in let lb := o.(o_last_boundary) q in
    0 <= lb -> is_prefix (firstn (Z.to_nat lb) q) (o.(o_norm) (p ++ s)) = true.
  Hypothesis no_boundary_law : forall p, let q := o.(o_norm) p in
    o.(o_last_boundary) q = -1 -> safe_known_prefix o delims p = [].
  Hypothesis boundary_range : forall q, -1 <= o.(o_last_boundary) q.

  Theorem safe_prefix_is_prefix p s : is_prefix (safe_known_prefix o delims p) (o.(o_norm) (p ++ s)) = true.
  Proof.
    destruct (Z.eq_dec (o.(o_last_boundary) (o.(o_norm) p)) (-1)) as [E|NE].
    - rewrite (no_boundary_law p E). reflexivity.
    - pose proof (boundary_range (o.(o_norm) p)) as R.
      pose proof (boundary_law p s) as B. cbv zeta in B. specialize (B ltac:(lia)).
      unfold safe_known_prefix.
      destruct (negb (o_last_boundary o (o_norm o p) =? -1) && negb (o_last_boundary o (o_norm o p) =? Z.of_nat (length (o_norm o p)))) eqn:C.
      + exact B.
      + apply andb_false_iff in C as [C|C].
        * apply negb_false_iff, Z.eqb_eq in C. contradiction.
        * apply negb_false_iff, Z.eqb_eq in C. rewrite C, Nat2Z.id, firstn_all_eq in B.
          destruct (scan_loop o (S (length (o_norm o p))) (o_norm o p) 0 0) as [prev this].
          eapply is_prefix_trans; [apply is_prefix_firstn|exact B].
  Qed.
End SafePrefix.

(* the delimiters read from the source are all ASCII (so each is a complete one-byte rune) *)
Lemma safe_delims_ascii : forallb (fun d => (d <? 128)%N) safe_delims = true.
Proof. vm_compute. reflexivity. Qed.

(* still accepted as coded: a lone exclusive bound beyond the far infinity (empty range) *)
Lemma far_infinity_accepted :
  exists v, rb_run (fun s => s) (v_unknown TNum) [RcNumLower v_pinf false] = Ok v.
Proof. eexists. vm_compute. reflexivity. Qed.
