(* DecodeProofs.v — safety of the decoders on the model (C17), for every input tree, target type and fuel:
   - the JSON type decoder and both implied-type functions never panic;
   - the value decoders (JSON, MessagePack) can only panic where the set constructor panics on a
     non-empty member list of consistent types (the one place whose no-panic argument needs the whole
     of Equals; it is decided per input by the correspondence and the worker process);
   - a value the JSON decoder returns has a type conforming to the requested constraint. *)
From Coq Require Import Lia.
From Cty Require Import Base Ty BigFloat Value Hash Ops Refine Wf Json Msgpack BaseProofs TyProofs WfProofs MsgpackProofs.
Open Scope Z_scope.

Section jv_ind2.
  Variable P : jv -> Prop.
  Hypothesis Hnull : P JNull. Hypothesis Hbool : forall b, P (JBool b).
  Hypothesis Hnum : forall s, P (JNum s). Hypothesis Hstr : forall s, P (JStr s).
  Hypothesis Harr : forall l, Forall P l -> P (JArr l).
  Hypothesis Hobj : forall m, Forall (fun kv => P (snd kv)) m -> P (JObj m).
  Fixpoint jv_ind2 (j : jv) : P j :=
    match j with
    | JNull => Hnull | JBool b => Hbool b | JNum s => Hnum s | JStr s => Hstr s
    | JArr l => Harr l ((fix go (l : list jv) : Forall P l :=
                           match l with [] => Forall_nil _ | x :: l' => Forall_cons _ (jv_ind2 x) (go l') end) l)
    | JObj m => Hobj m ((fix go (l : list (str * jv)) : Forall (fun kv => P (snd kv)) l :=
                           match l with [] => Forall_nil _ | x :: l' => Forall_cons _ (jv_ind2 (snd x)) (go l') end) m)
    end.
End jv_ind2.

Lemma rmap_no_panic {A B} (f : A -> B) (r : res A) : r <> Panic -> rmap f r <> Panic.
Proof. intros H. unfold rmap. apply bind_no_panic; [exact H|discriminate]. Qed.

Lemma strings_of_json_no_panic j : strings_of_json j <> Panic.
Proof.
  destruct j; cbn [strings_of_json]; try discriminate.
  induction l as [|x l IH]; [discriminate|].
  destruct x; try discriminate; (apply bind_no_panic; [exact IH|discriminate]).
Qed.

(* the JSON type decoder: an error or a type for every token tree *)
Definition tnp norm (j : jv) : Prop := type_of_json norm j <> Panic.
Definition tnp_deep norm (j : jv) : Prop :=
  tnp norm j /\ match j with
                | JArr l => Forall (tnp norm) l
                | JObj m => Forall (fun kv => tnp norm (snd kv)) m
                | _ => True
                end.

Lemma tnp_list norm l : Forall (tnp norm) l ->
  (fix go (l : list jv) : res (list ty) :=
     match l with
     | [] => Ok []
     | x :: l' => do t <- type_of_json norm x; do ts <- go l'; Ok (t :: ts)
     end) l <> Panic.
Proof.
  induction 1 as [|x l Hx _ IH]; [discriminate|].
  apply bind_no_panic; [exact Hx|]. intros t. apply bind_no_panic; [exact IH|discriminate].
Qed.
Lemma tnp_attrs norm m : Forall (fun kv => tnp norm (snd kv)) m ->
  (fix go (l : list (str * jv)) : res (list (str * ty)) :=
     match l with
     | [] => Ok []
     | kv :: l' => do t <- type_of_json norm (snd kv); do r <- go l'; Ok ((fst kv, t) :: r)
     end) m <> Panic.
Proof.
  induction 1 as [|x l Hx _ IH]; [discriminate|].
  apply bind_no_panic; [exact Hx|]. intros t. apply bind_no_panic; [exact IH|discriminate].
Qed.

Lemma mk_object_nil_no_panic norm attrs : mk_object norm attrs [] <> Panic.
Proof. discriminate. Qed.

Lemma type_of_json_deep norm : forall j, tnp_deep norm j.
Proof.
  induction j as [| | |s|l IH|m IH] using jv_ind2; unfold tnp_deep, tnp; cbn [type_of_json].
  1-3: split; [discriminate|exact I].
  - split; [|exact I].
    repeat (match goal with |- context [if ?c then _ else _] => destruct c end; try discriminate).
  - split; [|eapply Forall_impl; [|exact IH]; intros a Ha; exact (proj1 Ha)].
    destruct l as [|k rest]; [discriminate|]. destruct k; try discriminate.
    inversion IH as [|? ? _ IHrest]; subst.
    assert (E1 : forall (mk : ty -> ty),
               match rest with
               | [e] => rmap mk (type_of_json norm e)
               | e :: _ :: _ => do _ <- type_of_json norm e; Err OtherError
               | [] => Err OtherError
               end <> Panic).
    { intros mk. destruct rest as [|e [|e2 rest']]; try discriminate.
      - inversion IHrest as [|? ? He _]; subst. apply rmap_no_panic. exact (proj1 He).
      - inversion IHrest as [|? ? He _]; subst. apply bind_no_panic; [exact (proj1 He)|discriminate]. }
    destruct (str_eqb s s_list); [apply (E1 TList)|].
    destruct (str_eqb s s_map); [apply (E1 TMap)|].
    destruct (str_eqb s s_set); [apply (E1 TSet)|].
    destruct (str_eqb s s_tuple).
    { destruct rest as [|e more]; [discriminate|]. inversion IHrest as [|? ? He _]; subst.
      apply bind_no_panic.
      - destruct e; try discriminate. apply tnp_list. exact (proj2 He).
      - intros es. destruct more; discriminate. }
    destruct (str_eqb s s_object); [|discriminate].
    destruct rest as [|a more]; [discriminate|]. inversion IHrest as [|? ? Ha _]; subst.
    apply bind_no_panic.
    + destruct a; try discriminate. apply tnp_attrs. exact (proj2 Ha).
    + intros attrs. destruct more as [|o more']; [discriminate|].
      apply bind_no_panic; [apply strings_of_json_no_panic|]. intros opt.
      apply bind_no_panic.
      * destruct (mk_object norm attrs opt); discriminate.
      * intros t. destruct more'; discriminate.
  - split; [discriminate|]. eapply Forall_impl; [|exact IH]. intros a Ha; exact (proj1 Ha).
Qed.

Theorem type_of_json_no_panic norm j : type_of_json norm j <> Panic.
Proof. exact (proj1 (type_of_json_deep norm j)). Qed.

(* the JSON implied type: an error or a type for every token tree *)
Theorem json_implied_no_panic norm : forall j, json_implied_type norm j <> Panic.
Proof.
  induction j as [| | | |l IH|m IH] using jv_ind2; cbn [json_implied_type]; try discriminate.
  - apply bind_no_panic; [|discriminate].
    induction IH as [|x l Hx _ IHl]; [discriminate|].
    apply bind_no_panic; [exact Hx|]. intros t. apply bind_no_panic; [exact IHl|discriminate].
  - assert (G : forall acc,
      (fix go (l : list (str * jv)) (acc : list (str * ty)) : res ty :=
         match l with
         | [] => Ok (TObj (fold_left (fun a kt => kv_insert (norm (fst kt)) (snd kt) a) acc []) [])
         | kv :: l' =>
             do t <- json_implied_type norm (snd kv);
             let k := norm (fst kv) in
             match lookup k acc with
             | Some t0 => if ty_equals t0 t then go l' acc else Err OtherError
             | None => go l' (kv_insert k t acc)
             end
         end) m acc <> Panic); [|apply G].
    induction IH as [|kv l Hx _ IHl]; intros acc; [discriminate|].
    apply bind_no_panic; [exact Hx|]. intros t. cbv zeta.
    destruct (lookup (norm (fst kv)) acc); [destruct (ty_equals t0 t); [apply IHl|discriminate]|apply IHl].
Qed.

(* ---------- the value decoders ---------- *)
Lemma list_val_no_panic vs : vs <> [] -> can_coll vs = true -> list_val vs <> Panic.
Proof.
  unfold can_coll, list_val. destruct vs; [congruence|]. intros _.
  destruct (unify_elem_ty TDyn (map vty (v :: vs))); discriminate.
Qed.
Lemma map_val_no_panic norm kvs : kvs <> [] -> can_coll (map snd kvs) = true -> map_val norm kvs <> Panic.
Proof.
  unfold can_coll, map_val. destruct kvs; [congruence|]. intros _. rewrite map_map.
  destruct (unify_elem_ty TDyn (map (fun kv => vty (snd kv)) (p :: kvs))); discriminate.
Qed.

Section DecodersNoPanic.
  Variable norm : str -> str.
  (* the one assumption: the set constructor does not panic on a non-empty member list whose
     (unmarked) members have consistent types.  Everything else is proved. *)
  Hypothesis set_ok : forall vs, vs <> [] -> can_coll (map (fun v => fst (unmark_deep v)) vs) = true -> set_val vs <> Panic.

  Lemma unmarshal_primitive_no_panic j t : (t = TBool \/ t = TNum \/ t = TStr) -> unmarshal_primitive norm j t <> Panic.
  Proof.
    intros [->|[->| ->]]; destruct j; cbn [unmarshal_primitive]; try discriminate.
    all: repeat (match goal with
                 | |- context [if ?c then _ else _] => destruct c
                 | |- context [match bf_parse ?a ?b with _ => _ end] => destruct (bf_parse a b)
                 end; try discriminate).
  Qed.

  Theorem json_unmarshal_no_panic : forall f j t, json_unmarshal_at norm f j t <> Panic.
  Proof.
    induction f as [|f IH]; intros j t; [discriminate|].
    cbn [json_unmarshal_at]. unfold json_unmarshal_step. destruct j as [|b|s|s|l|m]; [discriminate|..].
    all: destruct t as [| | | |e|e|e|es|attrs opt|id]; try discriminate.
    all: try (apply unmarshal_primitive_no_panic; auto).
    - (* list *)
      apply bind_no_panic.
      + induction l as [|x l IHl]; [discriminate|].
        apply bind_no_panic; [apply IH|]. intros v. apply bind_no_panic; [exact IHl|discriminate].
      + intros [|v vs]; [discriminate|]. destruct (can_coll (v :: vs)) eqn:C; [|discriminate].
        apply list_val_no_panic; [discriminate|exact C].
    - (* set *)
      apply bind_no_panic.
      + induction l as [|x l IHl]; [discriminate|].
        apply bind_no_panic; [apply IH|]. intros v. apply bind_no_panic; [exact IHl|discriminate].
      + intros [|v vs]; [discriminate|].
        destruct (can_coll (map (fun v0 => fst (unmark_deep v0)) (v :: vs))) eqn:C; [|discriminate].
        apply set_ok; [discriminate|exact C].
    - (* tuple *)
      apply bind_no_panic.
      + revert es. induction l as [|x l IHl]; intros es; destruct es as [|te es]; try discriminate.
        apply bind_no_panic; [apply IH|]. intros v. apply bind_no_panic; [apply IHl|discriminate].
      + intros vs. destruct (negb _); discriminate.
    - (* dynamic wrapper *)
      apply bind_no_panic.
      + generalize (@None ty) (@None jv). induction m as [|kv m IHm]; intros oty body; [discriminate|].
        destruct (str_eqb (fst kv) s_type).
        * pose proof (type_of_json_no_panic norm (snd kv)) as Hn.
          destruct (type_of_json norm (snd kv)); try discriminate; [apply IHm|contradiction].
        * destruct (str_eqb (fst kv) s_value); [apply IHm|discriminate].
      + intros [[t'|] [body|]]; try discriminate.
        pose proof (IH body (strip_opt t')) as Hn.
        destruct (json_unmarshal_at norm f body (strip_opt t')); try discriminate; contradiction.
    - (* map *)
      apply bind_no_panic.
      + induction m as [|kv m IHm]; [discriminate|].
        apply bind_no_panic; [apply IH|]. intros v. apply bind_no_panic; [exact IHm|discriminate].
      + intros [|kv kvs]; [discriminate|]. destruct (can_coll (map snd (kv :: kvs))) eqn:C; [|discriminate].
        apply map_val_no_panic; [discriminate|exact C].
    - (* object *)
      apply bind_no_panic; [|discriminate].
      induction m as [|kv m IHm]; [discriminate|].
      destruct (lookup (fst kv) attrs); [|discriminate].
      apply bind_no_panic; [apply IH|]. intros v. apply bind_no_panic; [exact IHm|discriminate].
  Qed.

  Lemma number_of_mp_no_panic m : number_of_mp m <> Panic.
  Proof.
    destruct m; cbn [number_of_mp]; try discriminate;
      match goal with |- context [match bf_parse ?a ?b with _ => _ end] => destruct (bf_parse a b) end; discriminate.
  Qed.

  Theorem mp_unmarshal_no_panic jp : forall f m t, mp_unmarshal_at norm jp f m t <> Panic.
  Proof.
    induction f as [|f IH]; intros m t; [discriminate|].
    cbn [mp_unmarshal_at]. unfold mp_unmarshal_step.
    destruct m as [|b|z|x|s|s o|l|l|n items| | |]; try discriminate.
    all: try apply unknown_of_mp_no_panic.
    all: destruct t as [| | | |e|e|e|es|attrs opt|id]; try discriminate.
    all: try apply number_of_mp_no_panic.
    - (* array at dynamic: the wrapper *)
      destruct l as [|tyitem [|body [|x l]]]; try discriminate.
      destruct (match tyitem with MBin _ o => o | MStr s => jp s | _ => None end) as [tj|]; [|discriminate].
      pose proof (type_of_json_no_panic norm tj) as Hn.
      destruct (type_of_json norm tj); try discriminate; [apply IH|contradiction].
    - apply bind_no_panic.
      + induction l as [|x l IHl]; [discriminate|].
        apply bind_no_panic; [apply IH|]. intros v. apply bind_no_panic; [exact IHl|discriminate].
      + intros [|v vs]; [discriminate|]. destruct (can_coll (v :: vs)) eqn:C; [|discriminate].
        apply list_val_no_panic; [discriminate|exact C].
    - apply bind_no_panic.
      + induction l as [|x l IHl]; [discriminate|].
        apply bind_no_panic; [apply IH|]. intros v. apply bind_no_panic; [exact IHl|discriminate].
      + intros [|v vs]; [discriminate|].
        destruct (can_coll (map (fun v0 => fst (unmark_deep v0)) (v :: vs))) eqn:C; [|discriminate].
        apply set_ok; [discriminate|exact C].
    - destruct (negb _); [discriminate|].
      apply bind_no_panic; [|discriminate].
      revert es. induction l as [|x l IHl]; intros es; destruct es as [|te es]; try discriminate.
      apply bind_no_panic; [apply IH|]. intros v. apply bind_no_panic; [apply IHl|discriminate].
    - apply bind_no_panic.
      + induction l as [|kv l IHl]; [discriminate|].
        destruct (dec_string (fst kv)); [|discriminate].
        apply bind_no_panic; [apply IH|]. intros v. apply bind_no_panic; [exact IHl|discriminate].
      + intros [|kv kvs]; [discriminate|]. destruct (can_coll (map snd (kv :: kvs))) eqn:C; [|discriminate].
        apply map_val_no_panic; [discriminate|exact C].
    - destruct (negb _); [discriminate|].
      apply bind_no_panic.
      + induction l as [|kv l IHl]; [discriminate|].
        destruct (dec_string (fst kv)); [|discriminate].
        destruct (lookup s attrs); [|discriminate].
        apply bind_no_panic; [apply IH|]. intros v. apply bind_no_panic; [exact IHl|discriminate].
      + intros kvs. destruct (negb _); discriminate.
  Qed.
End DecodersNoPanic.

(* ---------- conformance of what the JSON value decoder returns ---------- *)
Lemma bind_ok_inv {A B} (r : res A) (k : A -> res B) b : bind r k = Ok b -> exists a, r = Ok a /\ k a = Ok b.
Proof. destruct r; cbn [bind]; try discriminate. intros H. eauto. Qed.

Lemma unify_dyn_all acc ts et : unify_elem_ty acc ts = Some et -> is_dyn et = true ->
  is_dyn acc = true /\ Forall (fun t => is_dyn t = true) ts.
Proof.
  revert acc; induction ts as [|t ts IH]; cbn [unify_elem_ty]; intros acc H D.
  - injection H as <-. auto.
  - destruct (is_dyn acc) eqn:Da.
    + destruct (IH _ H D) as [Dt F]. auto.
    + destruct (negb (is_dyn t) && negb (ty_equals acc t)); [discriminate|].
      destruct (IH _ H D) as [Dt _]. congruence.
Qed.

Lemma is_dyn_eq t : is_dyn t = true -> t = TDyn.
Proof. destruct t; cbn; congruence. Qed.

Lemma Conf_dyn_inv e : Conf TDyn e -> e = TDyn.
Proof. inversion 1; reflexivity. Qed.

(* the element type the collection constructors settle on conforms to whatever every member type conforms to *)
Lemma unify_conf e ts et : ts <> [] -> Forall (fun t => Conf t e) ts -> unify_elem_ty TDyn ts = Some et -> Conf et e.
Proof.
  intros Hne F U. destruct (unify_elem_ty_mem _ _ _ U) as [->|Hin].
  - destruct (unify_dyn_all _ _ _ U eq_refl) as [_ D].
    destruct ts as [|t ts]; [congruence|].
    inversion D as [|? ? Dt _]; subst. inversion F as [|? ? Ct _]; subst.
    apply is_dyn_eq in Dt. subst t. apply Conf_dyn_inv in Ct. subst e. constructor.
  - rewrite Forall_forall in F. auto.
Qed.

Lemma unmark_deep_ty v : vty (fst (unmark_deep v)) = vty v.
Proof. reflexivity. Qed.

Lemma with_marks_vty v ms : vty (with_marks v ms) = vty v.
Proof. unfold with_marks. destruct (unmark v). destruct (marks_union l ms); reflexivity. Qed.

Lemma list_val_conf e vs v : vs <> [] -> Forall (fun x => Conf (vty x) e) vs -> list_val vs = Ok v -> Conf (vty v) (TList e).
Proof.
  intros Hne F. unfold list_val. destruct vs as [|x vs]; [congruence|].
  destruct (unify_elem_ty TDyn (map vty (x :: vs))) as [et|] eqn:U; [|discriminate].
  intros H; injection H as <-. cbn [vty]. constructor.
  apply (unify_conf e (map vty (x :: vs))); [discriminate| |exact U].
  rewrite Forall_map. exact F.
Qed.

Lemma map_val_conf norm e kvs v : kvs <> [] -> Forall (fun kv => Conf (vty (snd kv)) e) kvs -> map_val norm kvs = Ok v -> Conf (vty v) (TMap e).
Proof.
  intros Hne F. unfold map_val. destruct kvs as [|x kvs]; [congruence|].
  destruct (unify_elem_ty TDyn (map (fun kv => vty (snd kv)) (x :: kvs))) as [et|] eqn:U; [|discriminate].
  intros H; injection H as <-. cbn [vty]. constructor.
  apply (unify_conf e (map (fun kv => vty (snd kv)) (x :: kvs))); [discriminate| |exact U].
  rewrite Forall_map. exact F.
Qed.

Lemma set_val_conf e vs v : vs <> [] -> Forall (fun x => Conf (vty x) e) vs -> set_val vs = Ok v -> Conf (vty v) (TSet e).
Proof.
  intros Hne F. unfold set_val. destruct vs as [|x vs]; [congruence|].
  destruct (unify_elem_ty TDyn (map (fun um => vty (fst um)) (map unmark_deep (x :: vs)))) as [et|] eqn:U; [|discriminate].
  intros H. apply bind_ok_inv in H as (bs & _ & H). injection H as <-.
  rewrite with_marks_vty. cbn [vty]. constructor.
  rewrite map_map in U.
  apply (unify_conf e (map (fun v0 => vty (fst (unmark_deep v0))) (x :: vs))); [discriminate| |exact U].
  rewrite Forall_map. exact F.
Qed.


Lemma keys_normal_attr norm attrs : 
  (fix go (l : list (str * ty)) : Prop := match l with [] => True | kv :: l' => keys_normal norm (snd kv) /\ go l' end) attrs ->
  forall k ta, lookup k attrs = Some ta -> keys_normal norm ta.
Proof.
  induction attrs as [|[k0 t0] attrs IH]; cbn [lookup]; intros H k ta L; [discriminate|].
  destruct H as [H0 H]. cbn [fst snd] in *. destruct (str_eqb k k0); [injection L as <-; exact H0|eauto].
Qed.
Lemma wf_ty_attr attrs : 
  (fix go (l : list (str * ty)) : bool := match l with [] => true | kv :: l' => wf_ty (snd kv) && go l' end) attrs = true ->
  forall k ta, lookup k attrs = Some ta -> wf_ty ta = true.
Proof.
  induction attrs as [|[k0 t0] attrs IH]; cbn [lookup]; intros H k ta L; [discriminate|].
  apply andb_prop in H as [H0 H]. cbn [fst snd] in *. destruct (str_eqb k k0); [injection L as <-; exact H0|eauto].
Qed.
Lemma keys_normal_tuple norm es : 
  (fix go (l : list ty) : Prop := match l with [] => True | x :: l' => keys_normal norm x /\ go l' end) es ->
  Forall (keys_normal norm) es.
Proof. induction es as [|x es IH]; intros H; constructor; [exact (proj1 H)|exact (IH (proj2 H))]. Qed.




Lemma lookup_kv_insert {A} k k' (v : A) l :
  lookup k (kv_insert k' v l) = if str_eqb k k' then Some v else lookup k l.
Proof.
  induction l as [|[k0 v0] l IH]; cbn [kv_insert lookup].
  - reflexivity.
  - destruct (str_ltb k' k0); [reflexivity|].
    destruct (str_eqb k' k0) eqn:E; cbn [lookup].
    + apply str_eqb_eq in E. subst k0. destruct (str_eqb k k'); reflexivity.
    + rewrite IH. destruct (str_eqb k k0) eqn:E0; [|reflexivity].
      apply str_eqb_eq in E0. subst k0. destruct (str_eqb k k') eqn:E1; [|reflexivity].
      apply str_eqb_eq in E1. subst k'. rewrite str_eqb_refl in E. discriminate.
Qed.

Lemma lookup_fold_insert {A} (P : str -> A -> Prop) (kvs acc : list (str * A)) k v :
  Forall (fun kv => P (fst kv) (snd kv)) kvs -> (forall v0, lookup k acc = Some v0 -> P k v0) ->
  lookup k (fold_left (fun a kv => kv_insert (fst kv) (snd kv) a) kvs acc) = Some v -> P k v.
Proof.
  revert acc. induction kvs as [|kv kvs IH]; cbn [fold_left]; intros acc F Ha L; [auto|].
  inversion F as [|? ? F0 F']; subst. apply (IH (kv_insert (fst kv) (snd kv) acc) F'); [|exact L].
  intros v0. rewrite lookup_kv_insert. destruct (str_eqb k (fst kv)) eqn:E; [|auto].
  apply str_eqb_eq in E. subst k. intros H; injection H as <-. exact F0.
Qed.

Lemma fold_left_map_fst {A B} (g : A -> B) (f : list (str * B) -> str * B -> list (str * B)) (l : list (str * A)) acc :
  fold_left (fun a kv => f a (fst kv, g (snd kv))) l acc = fold_left f (map (fun kv => (fst kv, g (snd kv))) l) acc.
Proof. revert acc; induction l as [|x l IH]; cbn; intros acc; auto. Qed.

Section JsonConforms.
  Variable norm : str -> str.

  Lemma unmarshal_primitive_ty j t v : unmarshal_primitive norm j t = Ok v -> vty v = t.
  Proof.
    destruct t; try discriminate; destruct j; cbn [unmarshal_primitive]; try discriminate.
    all: repeat (match goal with
                 | |- context [if ?c then _ else _] => destruct c
                 | |- context [match bf_parse ?a ?b with _ => _ end] => destruct (bf_parse a b)
                 end; try discriminate).
    all: intros H; injection H as <-; reflexivity.
  Qed.

  Theorem json_unmarshal_conforms : forall f j t v,
    wf_ty t = true -> keys_normal norm t ->
    json_unmarshal_at norm f j t = Ok v -> Conf (vty v) t.
  Proof.
    induction f as [|f IH]; intros j t v W K H; [discriminate|].
    cbn [json_unmarshal_at] in H. unfold json_unmarshal_step in H.
    destruct j as [|b|s|s|l|m]; [injection H as <-; apply Conf_refl|..].
    all: destruct t as [| | | |e|e|e|es|attrs opt|id]; try discriminate; try apply CDyn.
    all: try (apply unmarshal_primitive_ty in H; rewrite H; apply Conf_refl).
    - (* list *)
      apply bind_ok_inv in H as (vs & G & H).
      assert (F : Forall (fun x => Conf (vty x) e) vs).
      { clear H. revert vs G. induction l as [|x l IHl]; intros vs G.
        - injection G as <-. constructor.
        - apply bind_ok_inv in G as (v0 & G0 & G). apply bind_ok_inv in G as (r & G1 & G).
          injection G as <-. constructor; [eapply IH; eauto|eauto]. }
      destruct vs as [|x vs]; [injection H as <-; apply Conf_refl|].
      destruct (can_coll (x :: vs)); [|discriminate].
      eapply list_val_conf; [|exact F|exact H]. discriminate.
    - (* set *)
      apply bind_ok_inv in H as (vs & G & H).
      assert (F : Forall (fun x => Conf (vty x) e) vs).
      { clear H. revert vs G. induction l as [|x l IHl]; intros vs G.
        - injection G as <-. constructor.
        - apply bind_ok_inv in G as (v0 & G0 & G). apply bind_ok_inv in G as (r & G1 & G).
          injection G as <-. constructor; [eapply IH; eauto|eauto]. }
      destruct vs as [|x vs]; [injection H as <-; apply Conf_refl|].
      destruct (can_coll _); [|discriminate].
      eapply set_val_conf; [|exact F|exact H]. discriminate.
    - (* tuple *)
      apply bind_ok_inv in H as (vs & G & H).
      destruct (negb (Nat.eqb (length vs) (length es))) eqn:L; [discriminate|]. injection H as <-.
      cbn [tuple_val vty]. constructor.
      cbn [wf_ty] in W. cbn [keys_normal] in K. apply keys_normal_tuple in K.
      apply Bool.negb_false_iff in L. apply Nat.eqb_eq in L.
      revert es vs W K G L. induction l as [|x l IHl]; intros es vs W K G L; destruct es as [|te es].
      + injection G as <-. constructor.
      + injection G as <-. discriminate.
      + discriminate.
      + apply bind_ok_inv in G as (v0 & G0 & G). apply bind_ok_inv in G as (r & G1 & G). injection G as <-.
        cbn [forallb] in W. apply andb_prop in W as [W0 W]. inversion K as [|? ? K0 K']; subst.
        cbn [map]. constructor; [eapply IH; eauto|]. apply IHl; auto.
    - (* map *)
      apply bind_ok_inv in H as (kvs & G & H).
      assert (F : Forall (fun kv => Conf (vty (snd kv)) e) kvs).
      { clear H. revert kvs G. induction m as [|x m IHm]; intros kvs G.
        - injection G as <-. constructor.
        - apply bind_ok_inv in G as (v0 & G0 & G). apply bind_ok_inv in G as (r & G1 & G).
          injection G as <-. constructor; [eapply IH; eauto|eauto]. }
      destruct kvs as [|x kvs]; [injection H as <-; apply Conf_refl|].
      destruct (can_coll _); [|discriminate].
      eapply map_val_conf; [|exact F|exact H]. discriminate.
    - (* object *)
      apply bind_ok_inv in H as (kvs & G & H). injection H as <-.
      cbn [wf_ty] in W. apply andb_prop in W as [W Wm]. apply andb_prop in W as [W _]. apply andb_prop in W as [Ws _].
      cbn [keys_normal] in K. destruct K as [Kn Km].
      assert (F : Forall (fun kv => forall ta, lookup (fst kv) attrs = Some ta -> Conf (vty (snd kv)) ta) kvs).
      { revert kvs G. induction m as [|x m IHm]; intros kvs G.
        - injection G as <-. constructor.
        - destruct (lookup (fst x) attrs) as [ta|] eqn:L; [|discriminate].
          apply bind_ok_inv in G as (v0 & G0 & G). apply bind_ok_inv in G as (r & G1 & G).
          injection G as <-. constructor; [|eauto].
          cbn [fst snd]. intros ta' L'. rewrite L in L'. injection L' as <-.
          eapply IH; [| |exact G0]; [eapply wf_ty_attr; eauto|eapply keys_normal_attr; eauto]. }
      set (given := fold_left (fun acc kv => kv_insert (fst kv) (snd kv) acc) kvs []).
      unfold object_val. cbn [vty].
      set (all := map (fun kt : str * ty => (fst kt, match lookup (fst kt) given with Some v => v | None => v_null (snd kt) end)) attrs).
      assert (E : forall acc, fold_left (fun acc kv => kv_insert (norm (fst kv)) (vty (snd kv)) acc) all acc =
                  fold_left (fun acc kv => kv_insert (norm (fst kv)) (snd kv) acc) (map (fun kv => (fst kv, vty (snd kv))) all) acc).
      { generalize all. induction all0 as [|x l0 IHl0]; cbn; intros acc; auto. }
      rewrite E. clear E.
      rewrite (fold_kv_insert_sorted norm _ []).
      + cbn [app]. constructor. unfold all. rewrite map_map. cbn [fst snd].
        assert (Hl : forall kt, In kt attrs -> lookup (fst kt) attrs = Some (snd kt)).
        { intros kt Hin. apply lookup_sorted_self; [apply sorted_NoDup; exact Ws|exact Hin]. }
        clear all.
        assert (Hall : forall l, (forall kt, In kt l -> In kt attrs) ->
                  Forall2 (fun x y : str * ty => fst x = fst y /\ Conf (snd x) (snd y))
                    (map (fun x : str * ty => (fst x, vty match lookup (fst x) given with Some v => v | None => v_null (snd x) end)) l) l).
        { induction l as [|kt l IHl]; intros Hincl; cbn [map]; constructor.
          - split; [reflexivity|]. cbn [fst snd].
            destruct (lookup (fst kt) given) as [v|] eqn:L.
            + apply (lookup_fold_insert (fun k v => forall ta, lookup k attrs = Some ta -> Conf (vty v) ta) kvs [] (fst kt) v F);
                [intros v0 L0; discriminate|exact L|apply Hl; apply Hincl; left; reflexivity].
            + apply Conf_refl.
          - apply IHl. intros kt' Hin. apply Hincl. right. exact Hin. }
        apply Hall. auto.
      + cbn [app]. unfold all. unfold keys. rewrite !map_map. cbn [fst]. exact Ws.
      + intros kv Hkv. unfold all in Hkv. rewrite map_map in Hkv. apply in_map_iff in Hkv as (kt & <- & Hin).
        cbn [fst]. apply Kn. unfold keys. apply in_map. exact Hin.
  Qed.
End JsonConforms.


(* ---------- the refinement builder never changes the type ---------- *)
(* invariant of a builder session: the value being refined stays the same; a numeric
   work-in-progress refinement only ever belongs to a number *)
Definition wip_typed (b : builder) : Prop :=
  match b_wip b with Some (RNum _ _ _ _ _) => vty (b_orig b) = TNum | _ => True end.
Definition same_session (b b' : builder) : Prop := b_orig b' = b_orig b /\ b_marks b' = b_marks b /\ (wip_typed b -> wip_typed b').

Lemma same_refl b : same_session b b.
Proof. repeat split; auto. Qed.
Lemma same_trans a b c : same_session a b -> same_session b c -> same_session a c.
Proof. intros (A1 & A2 & A3) (B1 & B2 & B3). repeat split; try congruence. auto. Qed.

Lemma with_wip_same b r : (match r with RNum _ _ _ _ _ => vty (b_orig b) = TNum | _ => True end) -> same_session b (with_wip b r).
Proof. intros H. repeat split; auto. Qed.

Ltac bind_inv H := let a := fresh "a" in let Ha := fresh "Ha" in apply bind_ok_inv in H as (a & Ha & H).

Lemma set_null_kind r t : match rfn_set_null r t with RNum _ _ _ _ _ => match r with RNum _ _ _ _ _ => True | _ => False end | _ => True end.
Proof. destruct r; cbn; auto. Qed.

Lemma wip_num_typed b : wip_typed b -> match wip_of b with RNum _ _ _ _ _ => vty (b_orig b) = TNum | _ => True end.
Proof. unfold wip_typed, wip_of. destruct (b_wip b) as [[]|]; auto. Qed.

Ltac ok_inj := let H := fresh "H" in intros H; injection H as <-.
Lemma rb_not_null_same b b' : rb_not_null b = Ok b' -> same_session b b'.
Proof.
  unfold rb_not_null. intros H. bind_inv H. revert H. destruct (negb a); [ok_inj; apply same_refl|].
  destruct (_ && _); [discriminate|]. destruct (rfn_null (wip_of b)); try discriminate; ok_inj.
  all: repeat split; auto; intros T; apply wip_num_typed in T; unfold wip_typed; cbn [b_wip with_wip b_orig];
    pose proof (set_null_kind (wip_of b) TF) as K; destruct (rfn_set_null (wip_of b) TF); auto; destruct (wip_of b); tauto.
Qed.
Lemma rb_null_same b b' : rb_null b = Ok b' -> same_session b b'.
Proof.
  unfold rb_null. intros H. bind_inv H. revert H. destruct (negb a); [ok_inj; apply same_refl|].
  destruct (_ && _); [discriminate|]. destruct (rfn_null (wip_of b)); try discriminate; ok_inj.
  all: repeat split; auto; intros T; apply wip_num_typed in T; unfold wip_typed; cbn [b_wip with_wip b_orig];
    pose proof (set_null_kind (wip_of b) TT) as K; destruct (rfn_set_null (wip_of b) TT); auto; destruct (wip_of b); tauto.
Qed.
Lemma rb_prefix_same norm b s b' : rb_prefix_full norm b s = Ok b' -> same_session b b'.
Proof.
  unfold rb_prefix_full. intros H. bind_inv H. revert H. destruct (negb a); [ok_inj; apply same_refl|].
  destruct (wip_of b); try discriminate. cbv zeta. intros H. bind_inv H. revert H.
  destruct (negb (str_eqb _ _)); [discriminate|]. destruct (Nat.ltb _ _); ok_inj; [|apply same_refl].
  apply with_wip_same. exact I.
Qed.
Lemma rb_len_lower_same b z b' : rb_len_lower b z = Ok b' -> same_session b b'.
Proof.
  unfold rb_len_lower. intros H. bind_inv H. revert H. destruct (negb a); [ok_inj; apply same_refl|].
  destruct (wip_of b); try discriminate. intros H. bind_inv H. revert H.
  destruct (_ <? _); [ok_inj; apply same_refl|]. destruct (_ <? _); [discriminate|]. ok_inj.
  apply with_wip_same. exact I.
Qed.
Lemma rb_len_upper_same b z b' : rb_len_upper b z = Ok b' -> same_session b b'.
Proof.
  unfold rb_len_upper. intros H. bind_inv H. revert H. destruct (negb a); [ok_inj; apply same_refl|].
  destruct (wip_of b); try discriminate. intros H. bind_inv H. revert H.
  destruct (_ <? _); [ok_inj; apply same_refl|]. destruct (_ <? _); [discriminate|]. ok_inj.
  apply with_wip_same. exact I.
Qed.
Lemma rb_num_lower_same b v i b' : rb_num_lower b v i = Ok b' -> same_session b b'.
Proof.
  unfold rb_num_lower. intros H. bind_inv H. revert H. destruct (negb a); [ok_inj; apply same_refl|].
  destruct (wip_of b) eqn:Wp; try discriminate.
  destruct (negb (is_known v)); [ok_inj; apply same_refl|].
  destruct (is_null v); [discriminate|]. intros H. bind_inv H. revert H. destruct (kt a0); [discriminate|]. intros H. bind_inv H. revert H.
  destruct a1; [ok_inj; apply same_refl|].
  destruct (pnum (unmark_force v)) as [x|]; [|discriminate]. intros H. bind_inv H. injection H as <-.
  repeat split; auto. intros T. apply wip_num_typed in T. rewrite Wp in T.
  unfold wip_typed. cbn [b_wip with_wip b_orig]. destruct (snd x); try destruct i; exact T.
Qed.
Lemma rb_num_upper_same b v i b' : rb_num_upper b v i = Ok b' -> same_session b b'.
Proof.
  unfold rb_num_upper. intros H. bind_inv H. revert H. destruct (negb a); [ok_inj; apply same_refl|].
  destruct (wip_of b) eqn:Wp; try discriminate.
  destruct (negb (is_known v)); [ok_inj; apply same_refl|].
  destruct (is_null v); [discriminate|]. intros H. bind_inv H. revert H. destruct (kt a0); [discriminate|]. intros H. bind_inv H. revert H.
  destruct a1; [ok_inj; apply same_refl|].
  destruct (pnum (unmark_force v)) as [x|]; [|discriminate]. intros H. bind_inv H. injection H as <-.
  repeat split; auto. intros T. apply wip_num_typed in T. rewrite Wp in T.
  unfold wip_typed. cbn [b_wip with_wip b_orig]. destruct (snd x); try destruct i; exact T.
Qed.

Lemma replay_refs_same norm t : forall n items b b', replay_refs norm t n items b = Ok b' -> same_session b b'.
Proof.
  induction n as [|n IH]; intros items b b' H; cbn [replay_refs] in H.
  - injection H as <-. apply same_refl.
  - destruct items as [|kitem rest]; [discriminate|].
    destruct (dec_int64 kitem) as [k|]; [|discriminate].
    destruct (k =? k_null).
    { destruct rest as [|v rest']; [discriminate|]. destruct (dec_bool v) as [[|]|]; [| |discriminate]; bind_inv H.
      - eapply same_trans; [eapply rb_null_same; eauto|eauto].
      - eapply same_trans; [eapply rb_not_null_same; eauto|eauto]. }
    destruct (k =? k_prefix).
    { destruct t; try discriminate. destruct rest as [|v rest']; [discriminate|].
      destruct (dec_string v) as [s|]; [|discriminate]. destruct (utf8_valid s); [|discriminate]. bind_inv H.
      eapply same_trans; [eapply rb_prefix_same; eauto|eauto]. }
    destruct ((k =? k_lmin) || (k =? k_lmax)).
    { destruct (negb (is_coll t)); [discriminate|]. destruct rest as [|v rest']; [discriminate|].
      destruct (dec_int64 v) as [z|]; [|discriminate]. bind_inv H.
      eapply same_trans; [|eauto]. destruct (k =? k_lmin); [eapply rb_len_lower_same|eapply rb_len_upper_same]; eauto. }
    destruct ((k =? k_nmin) || (k =? k_nmax)).
    { destruct t; try discriminate. destruct rest as [|v rest']; [discriminate|].
      destruct (bound_of_mp v) as [[bound inc]| | |]; try discriminate. bind_inv H.
      eapply same_trans; [|eauto]. destruct (k =? k_nmin); [eapply rb_num_lower_same|eapply rb_num_upper_same]; eauto. }
    eauto.
Qed.

Lemma set_val_single_unknown e s : set_val [v_unknown e] = Ok s -> vty s = TSet e.
Proof.
  unfold set_val. cbn [map unmark_deep v_unknown vty vp fst unify_elem_ty is_dyn].
  intros H. bind_inv H. injection H as <-. rewrite with_marks_vty. reflexivity.
Qed.

Lemma rb_new_value_ty b v : wip_typed b -> rb_new_value b = Ok v -> vty v = vty (b_orig b).
Proof.
  intros T. apply wip_num_typed in T. unfold rb_new_value.
  destruct (_ || _); [intros H; injection H as <-; apply with_marks_vty|].
  destruct (rfn_null (wip_of b)).
  - intros H; injection H as <-. rewrite with_marks_vty. reflexivity.
  - destruct (wip_of b) as [| | |n lo hi li hi'|n lo hi].
    1-3: intros H; injection H as <-; rewrite with_marks_vty; reflexivity.
    + destruct lo as [lo|]; [destruct hi as [hi|]; [destruct li; [destruct hi'|]|]|].
      2-5: intros H; injection H as <-; rewrite with_marks_vty; reflexivity.
      intros H. bind_inv H. destruct (kt a); injection H as <-; rewrite with_marks_vty; [|reflexivity].
      rewrite T. reflexivity.
    + destruct (lo =? hi); [|intros H; injection H as <-; rewrite with_marks_vty; reflexivity].
      destruct (lo =? 0).
      * destruct (vty (b_orig b)) eqn:Ty; intros H; injection H as <-; rewrite with_marks_vty; cbn [vty]; congruence.
      * destruct (vty (b_orig b)) eqn:Ty; try (intros H; injection H as <-; rewrite with_marks_vty; cbn [vty]; congruence).
        { destruct (lo <=? 1024); intros H; injection H as <-; rewrite with_marks_vty; cbn [vty]; congruence. }
        destruct (lo =? 1); [|intros H; injection H as <-; rewrite with_marks_vty; cbn [vty]; congruence].
        intros H. bind_inv H. injection H as <-. rewrite with_marks_vty. apply set_val_single_unknown in Ha. exact Ha.
  - intros H; injection H as <-. rewrite with_marks_vty. reflexivity.
Qed.

(* a decoded unknown value has exactly the requested type *)
Theorem unknown_of_mp_ty norm n items t v : unknown_of_mp norm n items t = Ok v -> vty v = t.
Proof.
  unfold unknown_of_mp.
  assert (G : (if is_dyn t then Ok (v_unknown t) else
               match replay_refs norm t (Z.to_nat n) items (refine (v_unknown t)) with
               | Ok b => match rb_new_value b with Panic => Err OtherError | r => r end
               | Panic => Err OtherError
               | r => match r with Err e => Err e | _ => OutOfFuel end
               end) = Ok v -> vty v = t).
  { destruct (is_dyn t) eqn:D; [intros H; injection H as <-; reflexivity|].
    destruct (replay_refs norm t (Z.to_nat n) items (refine (v_unknown t))) as [b| | |] eqn:R; try discriminate.
    apply replay_refs_same in R as (O & _ & T).
    assert (T0 : wip_typed (refine (v_unknown t))) by (destruct t; cbn; auto; discriminate).
    assert (O0 : vty (b_orig (refine (v_unknown t))) = t) by (destruct t; cbn; auto; discriminate).
    destruct (rb_new_value b) as [v'| | |] eqn:N; try discriminate. intros H; injection H as <-.
    apply rb_new_value_ty in N; [|auto]. congruence. }
  destruct items; [destruct n|]; auto. intros H; injection H as <-; reflexivity.
Qed.

(* ---------- sorted association lists built by insertion ---------- *)
Lemma kv_insert_keys_in {A} k (v : A) l x : In x (keys (kv_insert k v l)) -> x = k \/ In x (keys l).
Proof.
  induction l as [|[k0 v0] l IH]; cbn [kv_insert keys map fst].
  - intros [<-|[]]; auto.
  - destruct (str_ltb k k0); [cbn; intros [<-|H]; auto|].
    destruct (str_eqb k k0) eqn:E; cbn [keys map fst].
    + intros [<-|H]; auto. right. right. exact H.
    + intros [<-|H]; [right; left; reflexivity|]. destruct (IH H); auto. right. right. assumption.
Qed.

Lemma kv_insert_sorted {A} k (v : A) l : sorted_keys (keys l) = true -> sorted_keys (keys (kv_insert k v l)) = true.
Proof.
  induction l as [|[k0 v0] l IH]; intros S; [reflexivity|].
  cbn [kv_insert]. destruct (str_ltb k k0) eqn:L.
  - cbn [keys map fst sorted_keys] in *. rewrite L. exact S.
  - destruct (str_eqb k k0) eqn:E.
    + apply str_eqb_eq in E. subst k0. exact S.
    + pose proof (sorted_keys_tail _ _ S) as St. specialize (IH St).
      assert (Hlt : str_ltb k0 k = true).
      { destruct (str_ltb k0 k) eqn:L2; auto. exfalso. apply str_eqb_neq in E. apply E. apply str_ltb_total; auto. }
      cbn [keys map fst]. change (sorted_keys (k0 :: keys (kv_insert k v l)) = true).
      destruct (keys (kv_insert k v l)) as [|y ys] eqn:Ky; [reflexivity|].
      change (str_ltb k0 y && sorted_keys (y :: ys) = true). rewrite IH. rewrite Bool.andb_true_r.
      assert (Hy : In y (keys (kv_insert k v l))) by (rewrite Ky; left; reflexivity).
      apply kv_insert_keys_in in Hy as [->|Hy]; [exact Hlt|].
      apply (sorted_keys_head_lt k0 (keys l)); [exact S|exact Hy].
Qed.

Lemma fold_insert_sorted {A} (kvs : list (str * A)) acc :
  sorted_keys (keys acc) = true -> sorted_keys (keys (fold_left (fun a kv => kv_insert (fst kv) (snd kv) a) kvs acc)) = true.
Proof. revert acc; induction kvs as [|kv kvs IH]; cbn [fold_left]; intros acc S; auto. apply IH. apply kv_insert_sorted. exact S. Qed.

Lemma fold_insert_keys_in {A} (kvs : list (str * A)) acc x :
  In x (keys (fold_left (fun a kv => kv_insert (fst kv) (snd kv) a) kvs acc)) -> In x (keys kvs) \/ In x (keys acc).
Proof.
  revert acc; induction kvs as [|kv kvs IH]; cbn [fold_left]; intros acc H; auto.
  destruct (IH _ H) as [H1|H1]; [left; right; exact H1|].
  apply kv_insert_keys_in in H1 as [->|H1]; [left; left; reflexivity|right; exact H1].
Qed.

Lemma lookup_keys_in {A} k (l : list (str * A)) v : lookup k l = Some v -> In k (keys l).
Proof. intros H. apply lookup_In in H. unfold keys. change k with (fst (k, v)). apply in_map. exact H. Qed.

Lemma in_keys_lookup {A} k (l : list (str * A)) : In k (keys l) -> exists v, lookup k l = Some v.
Proof.
  induction l as [|[k0 v0] l IH]; cbn [keys map fst lookup]; intros H; [contradiction|].
  destruct (str_eqb k k0) eqn:E; [eauto|]. destruct H as [->|H]; [rewrite str_eqb_refl in E; discriminate|auto].
Qed.

Lemma forall2_keys_conf (lk : str -> option ty) : forall (attrs0 : list (str * ty)) (gv : list (str * value)),
  keys gv = keys attrs0 ->
  (forall kv, In kv gv -> forall ta, lk (fst kv) = Some ta -> Conf (vty (snd kv)) ta) ->
  (forall kt, In kt attrs0 -> lk (fst kt) = Some (snd kt)) ->
  Forall2 (fun x y : str * ty => fst x = fst y /\ Conf (snd x) (snd y)) (map (fun kv => (fst kv, vty (snd kv))) gv) attrs0.
Proof.
  induction attrs0 as [|kt at' IHa]; intros gv Kg Hv Hl; destruct gv as [|g gv]; try discriminate; cbn [map]; constructor.
  - cbn [keys map] in Kg. injection Kg as K0 Kg. split; [exact K0|]. cbn [fst snd].
    apply (Hv g); [left; reflexivity|]. rewrite K0. apply Hl. left. reflexivity.
  - cbn [keys map] in Kg. injection Kg as K0 Kg. apply IHa; [exact Kg| |].
    + intros kv Hin. apply Hv. right. exact Hin.
    + intros kt' Hin. apply Hl. right. exact Hin.
Qed.

(* ---------- conformance of what the MessagePack value decoder returns ---------- *)
Section MpConforms.
  Variable norm : str -> str.
  Variable jp : str -> option jv.

  Theorem mp_unmarshal_conforms : forall f m t v,
    wf_ty t = true -> keys_normal norm t ->
    mp_unmarshal_at norm jp f m t = Ok v -> Conf (vty v) t.
  Proof.
    induction f as [|f IH]; intros m t v W K H; [discriminate|].
    cbn [mp_unmarshal_at] in H. unfold mp_unmarshal_step in H.
    destruct m as [|b|z|x|s|s o|l|l|n items| | |]; try discriminate.
    all: try (apply unknown_of_mp_ty in H; rewrite H; apply Conf_refl).
    all: destruct t as [| | | |e|e|e|es|attrs opt|id]; try discriminate; try apply CDyn.
    all: try (injection H as <-; apply Conf_refl).
    all: try (unfold number_of_mp in H;
              match type of H with context [match bf_parse ?a ?b with _ => _ end] => destruct (bf_parse a b) end;
              try discriminate; injection H as <-; apply Conf_refl).
    - (* list *)
      apply bind_ok_inv in H as (vs & G & H).
      assert (F : Forall (fun x => Conf (vty x) e) vs).
      { clear H. revert vs G. induction l as [|x l IHl]; intros vs G.
        - injection G as <-. constructor.
        - apply bind_ok_inv in G as (v0 & G0 & G). apply bind_ok_inv in G as (r & G1 & G).
          injection G as <-. constructor; [eapply IH; eauto|eauto]. }
      destruct vs as [|x vs]; [injection H as <-; apply Conf_refl|].
      destruct (can_coll (x :: vs)); [|discriminate].
      eapply list_val_conf; [|exact F|exact H]. discriminate.
    - (* set *)
      apply bind_ok_inv in H as (vs & G & H).
      assert (F : Forall (fun x => Conf (vty x) e) vs).
      { clear H. revert vs G. induction l as [|x l IHl]; intros vs G.
        - injection G as <-. constructor.
        - apply bind_ok_inv in G as (v0 & G0 & G). apply bind_ok_inv in G as (r & G1 & G).
          injection G as <-. constructor; [eapply IH; eauto|eauto]. }
      destruct vs as [|x vs]; [injection H as <-; apply Conf_refl|].
      destruct (can_coll _); [|discriminate].
      eapply set_val_conf; [|exact F|exact H]. discriminate.
    - (* tuple *)
      destruct (negb (Nat.eqb (length l) (length es))) eqn:L; [discriminate|].
      apply Bool.negb_false_iff in L. apply Nat.eqb_eq in L.
      apply bind_ok_inv in H as (vs & G & H). injection H as <-.
      cbn [tuple_val vty]. constructor.
      cbn [wf_ty] in W. cbn [keys_normal] in K. apply keys_normal_tuple in K.
      revert es vs W K G L. induction l as [|x l IHl]; intros es vs W K G L; destruct es as [|te es]; try discriminate.
      + injection G as <-. constructor.
      + apply bind_ok_inv in G as (v0 & G0 & G). apply bind_ok_inv in G as (r & G1 & G). injection G as <-.
        cbn [forallb] in W. apply andb_prop in W as [W0 W]. inversion K as [|? ? K0 K']; subst.
        cbn [map]. constructor; [eapply IH; eauto|]. apply IHl; auto.
    - (* map *)
      apply bind_ok_inv in H as (kvs & G & H).
      assert (F : Forall (fun kv => Conf (vty (snd kv)) e) kvs).
      { clear H. revert kvs G. induction l as [|x l IHl]; intros kvs G.
        - injection G as <-. constructor.
        - destruct (dec_string (fst x)) as [k|]; [|discriminate].
          apply bind_ok_inv in G as (v0 & G0 & G). apply bind_ok_inv in G as (r & G1 & G).
          injection G as <-. constructor; [eapply IH; eauto|eauto]. }
      destruct kvs as [|x kvs]; [injection H as <-; apply Conf_refl|].
      destruct (can_coll _); [|discriminate].
      eapply map_val_conf; [|exact F|exact H]. discriminate.
    - (* object *)
      destruct (negb (Nat.eqb (length l) (length attrs))); [discriminate|].
      apply bind_ok_inv in H as (kvs & G & H).
      cbn [wf_ty] in W. apply andb_prop in W as [W Wm]. apply andb_prop in W as [W _]. apply andb_prop in W as [Ws _].
      cbn [keys_normal] in K. destruct K as [Kn Km].
      assert (F : Forall (fun kv => forall ta, lookup (fst kv) attrs = Some ta -> Conf (vty (snd kv)) ta) kvs /\
                  forall k, In k (keys kvs) -> In k (keys attrs)).
      { clear H. revert kvs G. induction l as [|x l IHl]; intros kvs G.
        - injection G as <-. split; [constructor|intros k []].
        - destruct (dec_string (fst x)) as [k|]; [|discriminate].
          destruct (lookup k attrs) as [ta|] eqn:La; [|discriminate].
          apply bind_ok_inv in G as (v0 & G0 & G). apply bind_ok_inv in G as (r & G1 & G).
          injection G as <-. destruct (IHl _ G1) as [F1 F2]. split.
          + constructor; [|exact F1]. cbn [fst snd]. intros ta' L'. rewrite La in L'. injection L' as <-.
            eapply IH; [| |exact G0]; [eapply wf_ty_attr; eauto|eapply keys_normal_attr; eauto].
          + cbn [keys map fst]. intros k' [<-|Hk]; [eapply lookup_keys_in; eauto|auto]. }
      set (given := fold_left (fun acc kv => kv_insert (fst kv) (snd kv) acc) kvs []) in H.
      destruct (negb (Nat.eqb (length given) (length attrs))) eqn:L; [discriminate|]. injection H as <-.
      apply Bool.negb_false_iff in L. apply Nat.eqb_eq in L.
      destruct F as [F Fk].
      assert (Sg : sorted_keys (keys given) = true) by (apply fold_insert_sorted; reflexivity).
      assert (Kg : keys given = keys attrs).
      { apply sorted_incl_eq; auto.
        - unfold keys. rewrite !map_length. exact L.
        - intros k Hk. apply fold_insert_keys_in in Hk as [Hk|[]]. auto. }
      unfold object_val. cbn [vty].
      assert (E : forall acc, fold_left (fun acc kv => kv_insert (norm (fst kv)) (vty (snd kv)) acc) given acc =
                  fold_left (fun acc kv => kv_insert (norm (fst kv)) (snd kv) acc) (map (fun kv => (fst kv, vty (snd kv))) given) acc).
      { generalize given. induction given0 as [|x l0 IHl0]; cbn; intros acc; auto. }
      rewrite E. clear E.
      rewrite (fold_kv_insert_sorted norm _ []).
      + cbn [app]. constructor.
        assert (Hv : forall kv, In kv given -> forall ta, lookup (fst kv) attrs = Some ta -> Conf (vty (snd kv)) ta).
        { intros kv Hin. pose proof (lookup_sorted_self given kv (sorted_NoDup _ Sg) Hin) as Lk.
          apply (lookup_fold_insert (fun k v => forall ta, lookup k attrs = Some ta -> Conf (vty v) ta) kvs [] (fst kv) (snd kv) F);
            [intros v0 L0; discriminate|exact Lk]. }
        assert (Hl : forall kt, In kt attrs -> lookup (fst kt) attrs = Some (snd kt)).
        { intros kt Hin. apply lookup_sorted_self; [apply sorted_NoDup; exact Ws|exact Hin]. }
        apply (forall2_keys_conf (fun k => lookup k attrs)); auto.
      + cbn [app]. unfold keys. rewrite map_map. cbn [fst]. exact Sg.
      + intros kv Hkv. apply in_map_iff in Hkv as (kt & <- & Hin). cbn [fst]. apply Kn. rewrite <- Kg.
        unfold keys. apply in_map. exact Hin.
  Qed.
End MpConforms.
