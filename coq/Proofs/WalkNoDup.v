(* WalkNoDup.v — C19: on the structural fragment the paths Walk reports are pairwise different and each extends
   the path of the value walked: with WalkCount (one entry per node) every member is visited exactly once. *)
From Coq Require Import Lia.
From Cty Require Import Base Ty BigFloat Value Hash Ops Refine Wf Json Walk BaseProofs TyProofs WfProofs OpsProofs FuncProofs JsonProofs MsgpackProofs DecodeProofs JsonRoundTrip WalkProofs WalkIdentity WalkResolve WfRT WalkCount.
Open Scope Z_scope.

Lemma nodup_app {A} (a b : list A) : NoDup a -> NoDup b -> (forall x, In x a -> ~ In x b) -> NoDup (a ++ b).
Proof.
  induction a as [|x a IH]; intros Na Nb D; [exact Nb|]. inversion Na as [|? ? Hx Na']; subst. cbn [app]. constructor.
  - intros Hin. apply in_app_or in Hin as [Hin|Hin]; [exact (Hx Hin)|exact (D x (or_introl eq_refl) Hin)].
  - apply IH; [exact Na'|exact Nb|intros y Hy; apply D; right; exact Hy].
Qed.

Lemma v_int_inj i j : v_int i = v_int j -> i = j.
Proof.
  intros E.
  assert (E' : bf_of_int i = bf_of_int j)
    by exact (f_equal (fun v => match vp v with PNum n _ => n | _ => bf_of_int i end) E).
  pose proof (bf_int_of_int i) as Hi. rewrite E' in Hi. rewrite bf_int_of_int in Hi. injection Hi as Hi. symmetry. exact Hi.
Qed.

Lemma sindex_inj a b : SIndex a = SIndex b -> a = b.
Proof. intros E. exact (f_equal (fun s => match s with SIndex v => v | _ => a end) E). Qed.

Definition extends (pre : path) (qx : path * value) : Prop := exists q', fst qx = pre ++ q'.

Lemma go_nodup f pre (ms : list (step * value)) :
  NoDup (map fst ms) ->
  (forall sm, In sm ms -> forall pre' l', walk_at f pre' (snd sm) = Ok l' -> NoDup (map fst l') /\ Forall (extends pre') l') ->
  forall rest,
  (fix go (l : list (step * value)) : res (list (path * value)) :=
     match l with
     | [] => Ok []
     | sm :: l' => do a <- walk_at f (pre ++ [fst sm]) (snd sm); do b <- go l'; Ok (a ++ b)
     end) ms = Ok rest ->
  NoDup (map fst rest) /\ Forall (fun qx => exists s q', In s (map fst ms) /\ fst qx = pre ++ s :: q') rest.
Proof.
  induction ms as [|sm ms IH]; intros ND H rest E; [injection E as <-; split; constructor|].
  destruct (walk_at f (pre ++ [fst sm]) (snd sm)) as [a| | |] eqn:Ea; cbn [bind] in E; try discriminate E.
  match type of E with (do b <- ?g; _) = _ => destruct g as [b| | |] eqn:Eb end; cbn [bind] in E; try discriminate E.
  injection E as <-. cbn [map] in ND. inversion ND as [|? ? Hs ND']; subst.
  destruct (H sm (or_introl eq_refl) _ a Ea) as [Na Fa].
  destruct (IH ND' (fun sm0 Hin => H sm0 (or_intror Hin)) b eq_refl) as [Nb Fb].
  assert (Fa' : Forall (fun qx => exists q', fst qx = pre ++ fst sm :: q') a).
  { eapply Forall_impl; [|exact Fa]. intros qx (q' & E1). exists q'. etransitivity; [exact E1|]. rewrite <- app_assoc. reflexivity. }
  split.
  - rewrite map_app. apply nodup_app; [exact Na|exact Nb|].
    intros x Hxa Hxb. apply in_map_iff in Hxa as (qa & <- & Hqa). apply in_map_iff in Hxb as (qb & Eq & Hqb).
    rewrite Forall_forall in Fa', Fb. destruct (Fa' qa Hqa) as (q1 & E1). destruct (Fb qb Hqb) as (s & q2 & Hs2 & E2).
    assert (Eq' : pre ++ fst sm :: q1 = pre ++ s :: q2) by (etransitivity; [symmetry; exact E1|]; etransitivity; [symmetry; exact Eq|exact E2]).
    apply app_inv_head in Eq'. injection Eq' as Es _. apply Hs. rewrite Es. exact Hs2.
  - apply Forall_app. split.
    + eapply Forall_impl; [|exact Fa']. intros qx (q' & E1). exists (fst sm), q'. split; [left; reflexivity|exact E1].
    + eapply Forall_impl; [|exact Fb]. intros qx (s & q' & Hs2 & E1). exists s, q'. split; [right; exact Hs2|exact E1].
Qed.

Section WalkNoDup.
  Variable norm : str -> str.
  Variable unk : bool.

  Lemma steps_list_nodup e (l : list payload) : forall k,
    NoDup (map fst (map (fun '(i, p0) => (SIndex (v_int (Z.of_nat i)), V e p0)) (combine (seq k (length l)) l))).
  Proof.
    induction l as [|x l IH]; intros k; [constructor|]. cbn [length seq combine map fst]. constructor; [|apply IH].
    intros Hin. apply in_map_iff in Hin as (sm & Es & Hin). apply in_map_iff in Hin as ([i y] & <- & Hin). cbn [fst] in Es.
    apply sindex_inj in Es. apply v_int_inj in Es. apply in_combine_l in Hin. apply in_seq in Hin. lia.
  Qed.
  Lemma steps_tuple_nodup (es : list ty) (l : list payload) : forall k,
    NoDup (map fst (map (fun '(i, (te, p0)) => (SIndex (v_int (Z.of_nat i)), V te p0)) (combine (seq k (length l)) (combine es l)))).
  Proof.
    revert es. induction l as [|x l IH]; intros es k; [constructor|]. destruct es as [|te es]; [cbn; constructor|].
    cbn [length seq combine map fst]. constructor; [|apply IH].
    intros Hin. apply in_map_iff in Hin as (sm & Es & Hin). apply in_map_iff in Hin as ([i [te0 y]] & <- & Hin). cbn [fst] in Es.
    apply sindex_inj in Es. apply v_int_inj in Es. apply in_combine_l in Hin. apply in_seq in Hin. lia.
  Qed.
  Lemma steps_map_nodup e (m : list (str * payload)) : NoDup (keys m) ->
    NoDup (map fst (map (fun kv : str * payload => (SIndex (v_str (fst kv)), V e (snd kv))) m)).
  Proof.
    induction m as [|kv m IH]; intros ND; [constructor|]. cbn [keys map fst] in *. inversion ND as [|? ? Hk ND']; subst.
    constructor; [|apply IH; exact ND'].
    intros Hin. apply in_map_iff in Hin as (sm & Es & Hin). apply in_map_iff in Hin as (kv0 & <- & Hin). cbn [fst] in Es.
    injection Es as Es. apply Hk. rewrite <- Es. apply in_map. exact Hin.
  Qed.
  Lemma steps_obj_nodup attrs (m : list (str * payload)) : NoDup (keys m) ->
    NoDup (map fst (map (fun kv : str * payload => (SAttr (fst kv), V (match lookup (fst kv) attrs with Some ta => ta | None => TDyn end) (snd kv))) m)).
  Proof.
    induction m as [|kv m IH]; intros ND; [constructor|]. cbn [keys map fst] in *. inversion ND as [|? ? Hk ND']; subst.
    constructor; [|apply IH; exact ND'].
    intros Hin. apply in_map_iff in Hin as (sm & Es & Hin). apply in_map_iff in Hin as (kv0 & <- & Hin). cbn [fst] in Es.
    injection Es as Es. apply Hk. rewrite <- Es. apply in_map. exact Hin.
  Qed.

  Lemma finish pre (v : value) (ms : list (step * value)) rest :
    NoDup (map fst rest) /\ Forall (fun qx => exists s q', In s (map fst ms) /\ fst qx = pre ++ s :: q') rest ->
    NoDup (map fst ((pre, v) :: rest)) /\ Forall (extends pre) ((pre, v) :: rest).
  Proof.
    intros [N F]. split.
    - cbn [map fst]. constructor; [|exact N]. intros Hin. apply in_map_iff in Hin as (qx & Eq & Hin).
      rewrite Forall_forall in F. destruct (F qx Hin) as (s & q' & _ & E1).
      assert (Eq' : pre ++ s :: q' = pre) by (etransitivity; [symmetry; exact E1|exact Eq]).
      apply (f_equal (@length step)) in Eq'. rewrite app_length in Eq'. cbn [length] in Eq'. lia.
    - constructor; [exists []; cbn [fst]; rewrite app_nil_r; reflexivity|].
      eapply Forall_impl; [|exact F]. intros qx (s & q' & _ & E1). exists (s :: q'). exact E1.
  Qed.

  Theorem walk_nodup_at : forall n t p, RT norm unk t p -> (pdepth p <= n)%nat ->
    forall f pre l, walk_at f pre (V t p) = Ok l -> NoDup (map fst l) /\ Forall (extends pre) l.
  Proof.
    induction n as [|n IH]; intros t p R D f pre l E.
    { destruct p; cbn [pdepth] in D; lia. }
    destruct f as [|f]; [discriminate E|]. cbn [walk_at] in E.
    assert (Leaf : NoDup (map fst [(pre, V t p)]) /\ Forall (extends pre) [(pre, V t p)]).
    { split; [cbn; constructor; [intros []|constructor]|constructor; [exists []; cbn [fst]; rewrite app_nil_r; reflexivity|constructor]]. }
    inversion R as [t0 Hk Hd|t0|b|s Hs|e l0 We Fl|es l0 F2|e m We Sm Nm Fm|attrs m Sa Na F2]; subst;
      cbn [is_null is_known vp top_payload negb orb unmark_force unmark fst members_of vty bind] in E;
      try (injection E as <-; exact Leaf).
    - (* list *)
      match type of E with (do rest <- ?g; _) = _ => destruct g as [rest| | |] eqn:Er end; cbn [bind] in E; try discriminate E.
      injection E as <-. eapply finish. apply (go_nodup f pre _ (steps_list_nodup e l0 0)) with (rest := rest); [|exact Er].
      intros sm Hin pre' l' E'. apply in_map_iff in Hin as ([i x] & <- & Hin). cbn [snd vp] in *.
      apply in_combine_r in Hin.
      eapply IH; [rewrite Forall_forall in Fl; apply Fl; exact Hin| |exact E'].
      assert (Dm : (S (fold_right (fun y k => Nat.max (pdepth y) k) 0 l0) <= S n)%nat) by exact D.
      pose proof (depth_in_list l0 x Hin). lia.
    - (* tuple *)
      match type of E with (do rest <- ?g; _) = _ => destruct g as [rest| | |] eqn:Er end; cbn [bind] in E; try discriminate E.
      injection E as <-. eapply finish. apply (go_nodup f pre _ (steps_tuple_nodup es l0 0)) with (rest := rest); [|exact Er].
      intros sm Hin pre' l' E'. apply in_map_iff in Hin as ([i [te x]] & <- & Hin). cbn [snd vp] in *.
      apply in_combine_r in Hin.
      assert (Rx : RT norm unk te x /\ In x l0).
      { clear -F2 Hin. induction F2 as [|a b la lb Rab _ IHf]; [contradiction|]. destruct Hin as [E|Hin]; [injection E as <- <-; split; [exact Rab|left; reflexivity]|].
        destruct (IHf Hin) as [R1 I1]. split; [exact R1|right; exact I1]. }
      destruct Rx as [Rx Ix].
      eapply IH; [exact Rx| |exact E'].
      assert (Dm : (S (fold_right (fun y k => Nat.max (pdepth y) k) 0 l0) <= S n)%nat) by exact D.
      pose proof (depth_in_list l0 x Ix). lia.
    - (* map *)
      match type of E with (do rest <- ?g; _) = _ => destruct g as [rest| | |] eqn:Er end; cbn [bind] in E; try discriminate E.
      injection E as <-. eapply finish. apply (go_nodup f pre _ (steps_map_nodup e m (sorted_NoDup _ Sm))) with (rest := rest); [|exact Er].
      intros sm Hin pre' l' E'. apply in_map_iff in Hin as (kv & <- & Hin). cbn [snd vp] in *.
      eapply IH; [rewrite Forall_forall in Fm; apply Fm; exact Hin| |exact E'].
      assert (Dm : (S ((fix go (l : list (str * payload)) : nat :=
                          match l with [] => 0%nat | kv :: l' => Nat.max (pdepth (snd kv)) (go l') end) m) <= S n)%nat) by exact D.
      pose proof (depth_in_map m kv Hin). lia.
    - (* object *)
      pose proof (F2_keys (RT norm unk) attrs m F2) as Km.
      assert (Skm : sorted_keys (keys m) = true) by (rewrite Km; exact Sa).
      match type of E with (do rest <- ?g; _) = _ => destruct g as [rest| | |] eqn:Er end; cbn [bind] in E; try discriminate E.
      injection E as <-. eapply finish. apply (go_nodup f pre _ (steps_obj_nodup attrs m (sorted_NoDup _ Skm))) with (rest := rest); [|exact Er].
      intros sm Hin pre' l' E'. apply in_map_iff in Hin as (kv & <- & Hin). cbn [snd vp] in *.
      destruct (obj_member_ty (RT norm unk) attrs m Sa F2 kv Hin) as (ta & La & Rk). rewrite La in E'.
      eapply IH; [exact Rk| |exact E'].
      assert (Dm : (S ((fix go (l : list (str * payload)) : nat :=
                          match l with [] => 0%nat | kv :: l' => Nat.max (pdepth (snd kv)) (go l') end) m) <= S n)%nat) by exact D.
      pose proof (depth_in_map m kv Hin). lia.
  Qed.

  (* exactly once: one entry per node, no path twice *)
  Theorem walk_exactly_once t p l : RT norm unk t p -> walk (V t p) = Ok l ->
    length l = psize p /\ NoDup (map fst l).
  Proof.
    intros R E. split; [exact (walk_length norm unk t p l R E)|].
    unfold walk in E. exact (proj1 (walk_nodup_at (pdepth p) t p R (le_n _) _ _ l E)).
  Qed.
End WalkNoDup.
