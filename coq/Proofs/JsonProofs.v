(* JsonProofs.v — JSON encoding (C15). *)
From Coq Require Import Lia.
From Cty Require Import Base Ty BigFloat Value Hash Ops Refine Json TyProofs.
Open Scope Z_scope.

Lemma marshal_fuel_pos v t : exists f, (S (psize (vp v)) + ty_size t + ty_size (vty v))%nat = S f.
Proof. eexists. reflexivity. Qed.

(* values JSON cannot represent are rejected with an error, never mis-encoded *)
Theorem marshal_rejects_marked v t : is_marked v = true -> json_marshal v t = Err OtherError.
Proof. intros H. unfold json_marshal. cbn [Nat.add json_marshal_at]. unfold json_marshal_step. rewrite H. reflexivity. Qed.

Theorem marshal_rejects_unknown v t : is_marked v = false -> is_known v = false -> json_marshal v t = Err OtherError.
Proof. intros M K. unfold json_marshal. cbn [Nat.add json_marshal_at]. unfold json_marshal_step. rewrite M, K. reflexivity. Qed.

Theorem marshal_rejects_infinity n p i : json_marshal (V TNum (PNum (BInf n p) i)) TNum = Err OtherError.
Proof. reflexivity. Qed.

(* strings, booleans and nulls round-trip (for every string the normaliser fixes) *)
Theorem string_roundtrip norm s : norm s = s ->
  exists j, json_marshal (v_str s) TStr = Ok j /\ json_unmarshal norm j TStr = Ok (v_str s).
Proof. intros N. exists (JStr s). split; [reflexivity|]. cbn. rewrite N. reflexivity. Qed.

Theorem bool_roundtrip norm b :
  exists j, json_marshal (v_bool b) TBool = Ok j /\ json_unmarshal norm j TBool = Ok (v_bool b).
Proof. exists (JBool b). split; reflexivity. Qed.

Theorem null_roundtrip norm t : is_dyn t = false ->
  exists j, json_marshal (v_null t) t = Ok j /\ json_unmarshal norm j t = Ok (v_null t).
Proof.
  intros D. exists JNull. split; [|reflexivity].
  unfold json_marshal. cbn [Nat.add json_marshal_at]. unfold json_marshal_step. cbn [is_marked v_null vp vty is_known is_null top_payload negb].
  rewrite D. reflexivity.
Qed.

(* at a dynamic position the encoder writes exactly {"value": <encoding against the value's own type>,
   "type": <the type>} ... *)
Theorem dynamic_wrapper v j tj : is_marked v = false -> is_known v = true -> is_dyn (vty v) = false ->
  type_to_json (vty v) = Ok tj ->
  json_marshal_at (psize (vp v) + ty_size TDyn + ty_size (vty v)) v (vty v) = Ok j ->
  json_marshal v TDyn = Ok (JObj [(s_value, j); (s_type, tj)]).
Proof.
  intros M K D T J. unfold json_marshal. cbn [Nat.add json_marshal_at]. unfold json_marshal_step at 1. rewrite M, K. cbn [negb is_dyn andb]. rewrite D. cbn [negb].
  rewrite T. cbn [Nat.add] in J. rewrite J. reflexivity.
Qed.

(* ... and the decoder, given such a wrapper, decodes the value against the recovered type *)
Theorem dynamic_unwrap norm j tj t : type_of_json norm tj = Ok t ->
  json_unmarshal norm (JObj [(s_value, j); (s_type, tj)]) TDyn =
  match json_unmarshal_at norm (S (jv_size j + jv_size tj)) j (strip_opt t) with Err _ => Err OtherError | r => r end.
Proof.
  intros T. unfold json_unmarshal. cbn [jv_size fst snd]. rewrite Nat.add_0_r.
  remember (S (jv_size j + jv_size tj)) as f eqn:Hf.
  assert (E1 : str_eqb s_value s_type = false) by reflexivity.
  assert (E2 : str_eqb s_value s_value = true) by reflexivity.
  assert (E3 : str_eqb s_type s_type = true) by reflexivity.
  cbn [json_unmarshal_at]. unfold json_unmarshal_step. cbn [fst snd]. rewrite E1, E2, E3, T. cbn [bind]. reflexivity.
Qed.

(* refuted as coded: the shortest decimal text of a whole number held at low precision denotes
   another integer, so the number does not come back equal (known finding) *)
Definition w_1e23 : bf := Eval vm_compute in match bf_parse [49; 101; 50; 51]%N 512 with POk x => fst (f64_of x) | PErr => bf_zero53 end.
Definition w_json_back : res value := Eval vm_compute in
  match json_marshal (v_num w_1e23) TNum with Ok j => json_unmarshal (fun s => s) j TNum | _ => Err OtherError end.
Lemma integer_text_refuted :
  (match json_marshal (v_num w_1e23) TNum with Ok j => json_unmarshal (fun s => s) j TNum | _ => Err OtherError end) = w_json_back /\
  match w_json_back with Ok v' => raw_equals v' (v_num w_1e23) | _ => Ok true end = Ok false.
Proof. split; vm_compute; reflexivity. Qed.
