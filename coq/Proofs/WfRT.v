(* WfRT.v — C06: every value of the structural fragment [RT] (the values the codec round trips, the identity
   transformation and Walk are proved about) is well-formed for its type, at every depth. *)
From Coq Require Import Lia.
From Cty Require Import Base Ty BigFloat Value Hash Ops Refine Wf Json Msgpack Walk BaseProofs TyProofs WfProofs OpsProofs FuncProofs JsonProofs MsgpackProofs DecodeProofs JsonRoundTrip MpRoundTrip WalkProofs WalkIdentity.
Open Scope Z_scope.

Lemma list_eqb_str_refl (l : list str) : list_eqb str_eqb l l = true.
Proof. induction l as [|x l IH]; cbn [list_eqb]; [reflexivity|]. rewrite str_eqb_refl, IH. reflexivity. Qed.

Section WfRT.
  Variable norm : str -> str.
  Variable unk : bool.

  Definition wfp (t : ty) (p : payload) : Prop := wf_p norm t p true = true /\ wf_sets t p = true.

  (* an attribute's payload of an [RT] object has the attribute's declared type *)
  Lemma obj_member_ty (P : ty -> payload -> Prop) attrs (m : list (str * payload)) :
    sorted_keys (keys attrs) = true ->
    Forall2 (fun (kt : str * ty) (kv : str * payload) => fst kv = fst kt /\ P (snd kt) (snd kv)) attrs m ->
    forall kv, In kv m -> exists ta, lookup (fst kv) attrs = Some ta /\ P ta (snd kv).
  Proof.
    intros Sa F2 kv Hin.
    assert (Hx : exists kt, In kt attrs /\ fst kv = fst kt /\ P (snd kt) (snd kv)).
    { clear -F2 Hin. induction F2 as [|a b la lb [E Rab] _ IHf]; [contradiction|].
      destruct Hin as [<-|Hin]; [exists a; split; [left; reflexivity|split; assumption]|].
      destruct (IHf Hin) as (kt & I1 & I2). exists kt. split; [right; exact I1|exact I2]. }
    destruct Hx as (kt & Hk & Ek & Rk). exists (snd kt). split; [|exact Rk].
    rewrite Ek. apply lookup_sorted_self; [apply sorted_NoDup; exact Sa|exact Hk].
  Qed.

  Theorem RT_wfp_at : forall n t p, RT norm unk t p -> (pdepth p <= n)%nat -> wfp t p.
  Proof.
    induction n as [|n IH]; intros t p R D.
    { destruct p; cbn [pdepth] in D; lia. }
    inversion R as [t0 Hk Hd|t0|b|s Hs|e l We Fl|es l F2|e m We Sm Nm Fm|attrs m Sa Na F2]; subst; unfold wfp.
    - cbn [wf_p wf_sets wf_refinement andb]. rewrite Hd. split; reflexivity.
    - split; reflexivity.
    - split; reflexivity.
    - cbn [wf_p wf_sets andb]. rewrite Hs, str_eqb_refl. split; reflexivity.
    - (* list *)
      assert (Hall : forall x, In x l -> wfp e x).
      { intros x Hin. apply IH; [rewrite Forall_forall in Fl; apply Fl; exact Hin|].
        assert (Dm : (S (fold_right (fun y k => Nat.max (pdepth y) k) 0 l) <= S n)%nat) by exact D.
        pose proof (depth_in_list l x Hin). lia. }
      cbn [wf_p wf_sets]. split; apply forallb_forall; intros x Hin; apply (Hall x Hin).
    - (* tuple *)
      assert (Hall : Forall2 wfp es l).
      { assert (Dall : forall x, In x l -> (pdepth x <= n)%nat).
        { intros x Hin. assert (Dm : (S (fold_right (fun y k => Nat.max (pdepth y) k) 0 l) <= S n)%nat) by exact D.
          pose proof (depth_in_list l x Hin). lia. }
        clear D R. induction F2 as [|te x es' l' Rx _ IHf]; constructor.
        - apply IH; [exact Rx|apply Dall; left; reflexivity].
        - apply IHf. intros y Hy. apply Dall. right. exact Hy. }
      cbn [wf_p wf_sets]. assert (L : length l = length es) by (symmetry; eapply Forall2_length; eauto).
      rewrite L, Nat.eqb_refl. cbn [andb].
      clear -Hall. induction Hall as [|te x es' l' [W1 W2] _ [I1 I2]]; [split; reflexivity|].
      split; [rewrite W1; exact I1|rewrite W2; exact I2].
    - (* map *)
      assert (Hall : forall kv, In kv m -> wfp e (snd kv) /\ norm (fst kv) = fst kv).
      { intros kv Hin. split; [|apply Nm; unfold keys; apply in_map; exact Hin].
        apply IH; [rewrite Forall_forall in Fm; apply Fm; exact Hin|].
        assert (Dm : (S ((fix go (l : list (str * payload)) : nat :=
                            match l with [] => 0%nat | kv :: l' => Nat.max (pdepth (snd kv)) (go l') end) m) <= S n)%nat) by exact D.
        pose proof (depth_in_map m kv Hin). lia. }
      cbn [wf_p wf_sets]. rewrite Sm. cbn [andb].
      clear -Hall. induction m as [|kv m IHm]; [split; reflexivity|].
      destruct (Hall kv (or_introl eq_refl)) as [[W1 W2] Nk].
      destruct IHm as [I1 I2]; [intros kv0 Hin; apply Hall; right; exact Hin|].
      split; [rewrite Nk, str_eqb_refl, W1; exact I1|rewrite W2; exact I2].
    - (* object *)
      pose proof (F2_keys (RT norm unk) attrs m F2) as Km.
      assert (Hall : forall kv, In kv m -> exists ta, lookup (fst kv) attrs = Some ta /\ wfp ta (snd kv) /\ norm (fst kv) = fst kv).
      { intros kv Hin. destruct (obj_member_ty (RT norm unk) attrs m Sa F2 kv Hin) as (ta & La & Rk).
        exists ta. split; [exact La|]. split; [|apply Na; rewrite <- Km; unfold keys; apply in_map; exact Hin].
        apply IH; [exact Rk|].
        assert (Dm : (S ((fix go (l : list (str * payload)) : nat :=
                            match l with [] => 0%nat | kv :: l' => Nat.max (pdepth (snd kv)) (go l') end) m) <= S n)%nat) by exact D.
        pose proof (depth_in_map m kv Hin). lia. }
      cbn [wf_p wf_sets]. rewrite Km, list_eqb_str_refl. cbn [andb].
      clear -Hall. induction m as [|kv m IHm]; [split; reflexivity|].
      destruct (Hall kv (or_introl eq_refl)) as (ta & La & [W1 W2] & Nk).
      destruct IHm as [I1 I2]; [intros kv0 Hin; apply Hall; right; exact Hin|].
      split; [rewrite Nk, str_eqb_refl, La, W1; exact I1|rewrite La, W2; exact I2].
  Qed.

  Theorem RT_wf_value t p : RT norm unk t p -> wf_ty t = true -> has_opt t = false -> wf_value norm (V t p) = true.
  Proof.
    intros R Wt Ho. destruct (RT_wfp_at (pdepth p) t p R (le_n _)) as [W1 W2].
    unfold wf_value. cbn [vty vp]. rewrite Wt, Ho, W1, W2. reflexivity.
  Qed.

  (* traversal and decoders: what they return for such a value is well-formed *)
  Corollary identity_transform_wf t p : RT norm unk t p -> wf_ty t = true -> has_opt t = false ->
    exists r, transform norm (fun _ x => Ok x) (V t p) = Ok r /\ wf_value norm r = true.
  Proof. intros R Wt Ho. exists (V t p). split; [apply (transform_identity norm unk); exact R|apply RT_wf_value; assumption]. Qed.
End WfRT.

Corollary json_decoded_wf norm t p : RT norm false t p -> wf_ty t = true -> has_opt t = false ->
  exists j r, json_marshal (V t p) t = Ok j /\ json_unmarshal norm j t = Ok r /\ wf_value norm r = true.
Proof.
  intros R Wt Ho. destruct (json_roundtrip norm t p R) as (j & E1 & E2). exists j, (V t p).
  split; [exact E1|split; [exact E2|apply (RT_wf_value norm false); assumption]].
Qed.

Corollary mp_decoded_wf norm unk trunc jp t p : RT norm unk t p -> wf_ty t = true -> has_opt t = false ->
  exists m r, mp_marshal trunc (V t p) t = Ok m /\ mp_unmarshal norm jp m t = Ok r /\ wf_value norm r = true.
Proof.
  intros R Wt Ho. destruct (mp_roundtrip norm unk trunc jp t p R) as (m & E1 & E2). exists m, (V t p).
  split; [exact E1|split; [exact E2|apply (RT_wf_value norm unk); assumption]].
Qed.
