(* WalkIdentity.v — C19: the identity transformation returns the value it was given, for every value of the
   structural fragment [RT] (booleans, strings, nulls, unrefined unknowns, lists, tuples, maps, objects) nested
   to any depth: the collection constructors rebuild exactly what was taken apart. *)
From Coq Require Import Lia.
From Cty Require Import Base Ty BigFloat Value Hash Ops Refine Wf Json Walk BaseProofs TyProofs WfProofs FuncProofs JsonProofs MsgpackProofs DecodeProofs JsonRoundTrip.
Open Scope Z_scope.

Section WalkIdentity.
  Variable norm : str -> str.
  Variable unk : bool.
  Definition idcb : path -> value -> res value := fun _ x => Ok x.

  Lemma obj_members_pairs_gen (full : list (str * ty)) : forall sub m,
    (forall kt, In kt sub -> lookup (fst kt) full = Some (snd kt)) ->
    Forall2 (fun (kt : str * ty) (kv : str * payload) => fst kv = fst kt /\ RT norm unk (snd kt) (snd kv)) sub m ->
    map (fun kv : str * payload => (fst kv, V (match lookup (fst kv) full with Some ta => ta | None => TDyn end) (snd kv))) m =
    map pair_val (combine sub m).
  Proof.
    intros sub m HA F2. induction F2 as [|kt kv sub m [E _] _ IH]; [reflexivity|].
    cbn [map combine pair_val fst snd]. rewrite E, (HA kt (or_introl eq_refl)). f_equal.
    apply IH. intros kt0 Hin. apply HA. right. exact Hin.
  Qed.

  Lemma obj_members_pairs attrs m :
    sorted_keys (keys attrs) = true ->
    Forall2 (fun (kt : str * ty) (kv : str * payload) => fst kv = fst kt /\ RT norm unk (snd kt) (snd kv)) attrs m ->
    map (fun kv : str * payload => (fst kv, V (match lookup (fst kv) attrs with Some ta => ta | None => TDyn end) (snd kv))) m =
    map pair_val (combine attrs m).
  Proof.
    intros Sa F2. apply obj_members_pairs_gen; [|exact F2].
    intros kt Hin. apply lookup_sorted_self; [apply sorted_NoDup; exact Sa|exact Hin].
  Qed.

  Lemma depth_in_list (l : list payload) x : In x l -> (pdepth x <= fold_right (fun y k => Nat.max (pdepth y) k) 0 l)%nat.
  Proof. induction l as [|z zs IHz]; intros Hin; [contradiction|]. cbn [fold_right]. destruct Hin as [<-|Hin]; [lia|]. specialize (IHz Hin). lia. Qed.
  Lemma depth_in_map (m : list (str * payload)) kv0 : In kv0 m ->
    (pdepth (snd kv0) <= (fix go (l : list (str * payload)) : nat :=
                            match l with [] => 0%nat | kv :: l' => Nat.max (pdepth (snd kv)) (go l') end) m)%nat.
  Proof. induction m as [|z zs IHz]; intros Hin; [contradiction|]. destruct Hin as [<-|Hin]; [lia|]. specialize (IHz Hin). lia. Qed.

  (* the members loop of the transformation, run with the identity on members that come back unchanged *)
  Lemma go_identity f (p : path) (ms : list (step * value)) :
    (forall sm, In sm ms -> forall q, transform_at norm idcb idcb f q (snd sm) = Ok (snd sm)) ->
    (fix go (l : list (step * value)) : res (list (step * value)) :=
       match l with
       | [] => Ok []
       | sm :: l' => do a <- transform_at norm idcb idcb f (p ++ [fst sm]) (snd sm); do b <- go l'; Ok ((fst sm, a) :: b)
       end) ms = Ok ms.
  Proof.
    induction ms as [|sm ms IH]; intros H; [reflexivity|].
    rewrite (H sm (or_introl eq_refl)). cbn [bind]. rewrite IH; [destruct sm; reflexivity|].
    intros sm0 Hin. apply H. right. exact Hin.
  Qed.

  Theorem transform_identity_at : forall n t p, RT norm unk t p -> (pdepth p <= n)%nat ->
    forall f q, (n < f)%nat -> transform_at norm idcb idcb f q (V t p) = Ok (V t p).
  Proof.
    induction n as [|n IH]; intros t p R D f q Hf.
    { destruct p; cbn [pdepth] in D; lia. }
    destruct f as [|f]; [lia|]. assert (Hf0 : (n < f)%nat) by lia.
    cbn [transform_at]. unfold idcb at 1. cbn [bind].
    inversion R as [t0 Hk Hd|t0|b|s Hs|e l We Fl|es l F2|e m We Sm Nm Fm|attrs m Sa Na F2]; subst;
      cbn [unmark vp vty is_null is_known top_payload negb orb bind]; try reflexivity.
    - (* list *)
      cbn [members_of vty vp bind].
      destruct l as [|x l]; [reflexivity|].
      remember (map (fun '(i, p0) => (SIndex (v_int (Z.of_nat i)), V e p0)) (combine (seq 0 (length (x :: l))) (x :: l))) as ms eqn:Ems0.
      assert (Hms : map snd ms = map (fun x0 => V e x0) (x :: l)).
      { rewrite Ems0. generalize 0%nat. generalize (x :: l). induction l0 as [|y l0 IHl0]; intros k; [reflexivity|].
        cbn [length seq combine map snd]. f_equal. apply IHl0. }
      destruct ms as [|sm rest]; [discriminate Ems0|]. clear Ems0.
      rewrite (go_identity f q (sm :: rest)).
      2:{ intros sm0 Hin q0. assert (Hs : In (snd sm0) (map snd (sm :: rest))) by (apply in_map; exact Hin).
          rewrite Hms in Hs. apply in_map_iff in Hs as (y & Ey & Hy). rewrite <- Ey.
          apply IH; [rewrite Forall_forall in Fl; apply Fl; exact Hy| |exact Hf0].
          assert (Dm : (S (fold_right (fun y k => Nat.max (pdepth y) k) 0 (x :: l)) <= S n)%nat) by exact D.
          pose proof (depth_in_list (x :: l) y Hy). lia. }
      cbn [bind]. rewrite Hms. unfold list_val.
      change (map (fun x0 : payload => {| vty := e; vp := x0 |}) (x :: l)) with ({| vty := e; vp := x |} :: map (fun x0 : payload => {| vty := e; vp := x0 |}) l) at 1.
      rewrite map_vty_V, map_vp_V. cbn [length]. rewrite (unify_dyn_same e (length l) We). cbn [bind]. reflexivity.
    - (* tuple *)
      cbn [members_of vty vp bind].
      assert (L : length l = length es) by (symmetry; eapply Forall2_length; eauto).
      destruct l as [|x l]; [destruct es; [reflexivity|discriminate]|]. destruct es as [|te es]; [discriminate|].
      remember (map (fun '(i, (te0, p0)) => (SIndex (v_int (Z.of_nat i)), V te0 p0)) (combine (seq 0 (length (x :: l))) (combine (te :: es) (x :: l)))) as ms eqn:Ems0.
      assert (Hms : map snd ms = map (fun tx : ty * payload => V (fst tx) (snd tx)) (combine (te :: es) (x :: l))).
      { rewrite Ems0. assert (Lc : length (combine (te :: es) (x :: l)) = length (x :: l)) by (rewrite combine_length, L, Nat.min_id; reflexivity).
        revert Lc. generalize (length (x :: l)). generalize 0%nat. generalize (combine (te :: es) (x :: l)).
        induction l0 as [|[ty0 y] l0 IHl0]; intros k len Lc; destruct len; try discriminate; [reflexivity|].
        cbn [seq combine map snd fst]. f_equal. apply IHl0. cbn in Lc. lia. }
      destruct ms as [|sm rest]; [discriminate Ems0|]. clear Ems0.
      rewrite (go_identity f q (sm :: rest)).
      2:{ intros sm0 Hin q0. assert (Hs : In (snd sm0) (map snd (sm :: rest))) by (apply in_map; exact Hin).
          rewrite Hms in Hs. apply in_map_iff in Hs as ([ty0 y] & Ey & Hy). rewrite <- Ey. cbn [fst snd].
          assert (Ry : RT norm unk ty0 y /\ In y (x :: l)).
          { clear -F2 Hy. induction F2 as [|a b la lb Rab _ IHf]; [contradiction|]. destruct Hy as [E|Hy]; [injection E as <- <-; split; [exact Rab|left; reflexivity]|].
            destruct (IHf Hy) as [R1 I1]. split; [exact R1|right; exact I1]. }
          destruct Ry as [Ry Iy].
          apply IH; [exact Ry| |exact Hf0].
          assert (Dm : (S (fold_right (fun y k => Nat.max (pdepth y) k) 0 (x :: l)) <= S n)%nat) by exact D.
          pose proof (depth_in_list (x :: l) y Iy). lia. }
      cbn [bind]. rewrite Hms. unfold tuple_val.
      rewrite (map_vty_combine (te :: es) (x :: l) L), (map_vp_combine (te :: es) (x :: l) L). reflexivity.
    - (* map *)
      cbn [members_of vty vp bind].
      destruct m as [|kv m]; [reflexivity|].
      remember (map (fun kv0 : str * payload => (SIndex (v_str (fst kv0)), V e (snd kv0))) (kv :: m)) as ms eqn:Ems0.
      assert (Hms : map (fun sv : step * value => (match fst sv with SIndex k => match vp k with PStr s => s | _ => [] end | SAttr n0 => n0 end, snd sv)) ms =
                    map (fun kv0 : str * payload => (fst kv0, V e (snd kv0))) (kv :: m)).
      { rewrite Ems0. rewrite map_map. reflexivity. }
      assert (Hsnd : forall sm0, In sm0 ms -> exists kv0, In kv0 (kv :: m) /\ snd sm0 = V e (snd kv0)).
      { rewrite Ems0. intros sm0 Hin. apply in_map_iff in Hin as (kv0 & <- & Hin). eauto. }
      destruct ms as [|sm rest]; [discriminate Ems0|]. clear Ems0.
      rewrite (go_identity f q (sm :: rest)).
      2:{ intros sm0 Hin q0. destruct (Hsnd sm0 Hin) as (kv0 & Hk & ->).
          apply IH; [rewrite Forall_forall in Fm; apply Fm; exact Hk| |exact Hf0].
          assert (Dm : (S ((fix go (l : list (str * payload)) : nat :=
                              match l with [] => 0%nat | kv :: l' => Nat.max (pdepth (snd kv)) (go l') end) (kv :: m)) <= S n)%nat) by exact D.
          pose proof (depth_in_map (kv :: m) kv0 Hk). lia. }
      cbn [bind]. rewrite Hms.
      destruct (map_val_rebuild norm e (kv :: m) We ltac:(discriminate) Sm Nm) as [_ V0]. cbv zeta in V0.
      rewrite V0. cbn [bind]. reflexivity.
    - (* object *)
      cbn [members_of vty vp bind].
      destruct m as [|kv m]; [reflexivity|].
      remember (map (fun kv0 : str * payload => (SAttr (fst kv0), V (match lookup (fst kv0) attrs with Some ta => ta | None => TDyn end) (snd kv0))) (kv :: m)) as ms eqn:Ems0.
      assert (Hms : map (fun sv : step * value => (match fst sv with SAttr n0 => n0 | _ => [] end, snd sv)) ms = map pair_val (combine attrs (kv :: m))).
      { rewrite Ems0. rewrite map_map. cbn [fst snd]. apply obj_members_pairs; assumption. }
      assert (Hsnd : forall sm0 : step * value, In sm0 ms -> exists (kt : str * ty) (kv0 : str * payload), In kv0 (kv :: m) /\ RT norm unk (snd kt) (snd kv0) /\ snd sm0 = V (snd kt) (snd kv0)).
      { intros sm0 Hin.
        assert (Hs : In (match fst sm0 with SAttr n0 => n0 | _ => [] end, snd sm0) (map pair_val (combine attrs (kv :: m)))).
        { rewrite <- Hms. apply (in_map (fun sv : step * value => (match fst sv with SAttr n0 => n0 | _ => [] end, snd sv))). exact Hin. }
        apply in_map_iff in Hs as ([kt kv0] & Ep & Hc). unfold pair_val in Ep. cbn [fst snd] in Ep. injection Ep as _ Ev.
        exists kt, kv0. split; [eapply in_combine_r; eauto|]. split; [|symmetry; exact Ev].
        clear -F2 Hc. induction F2 as [|a b la lb [_ Rab] _ IHf]; [contradiction|]. destruct Hc as [E|Hc]; [injection E as <- <-; exact Rab|auto]. }
      destruct ms as [|sm rest]; [discriminate Ems0|]. clear Ems0.
      rewrite (go_identity f q (sm :: rest)).
      2:{ intros sm0 Hin q0. destruct (Hsnd sm0 Hin) as (kt & kv0 & Hk & Rk & ->).
          apply IH; [exact Rk| |exact Hf0].
          assert (Dm : (S ((fix go (l : list (str * payload)) : nat :=
                              match l with [] => 0%nat | kv :: l' => Nat.max (pdepth (snd kv)) (go l') end) (kv :: m)) <= S n)%nat) by exact D.
          pose proof (depth_in_map (kv :: m) kv0 Hk). lia. }
      cbn [bind]. rewrite Hms.
      set (kvs := map pair_val (combine attrs (kv :: m))).
      pose proof (F2_keys (RT norm unk) attrs (kv :: m) F2) as Km.
      destruct (pair_tys (RT norm unk) attrs (kv :: m) F2) as [PT PV]. fold kvs in PT, PV.
      unfold object_val.
      rewrite (fold_conv vty norm kvs []), (fold_conv vp norm kvs []), PT, PV.
      rewrite (fold_kv_insert_sorted norm attrs []); [|exact Sa|intros kv1 Hin; apply Na; unfold keys; apply in_map; exact Hin].
      rewrite (fold_kv_insert_sorted norm (kv :: m) []); [reflexivity|cbn [app]; rewrite Km; exact Sa|].
      intros kv1 Hin. apply Na. rewrite <- Km. unfold keys. apply in_map. exact Hin.
  Qed.

  (* the public entry point (Transform is the post-order form: only the exit callback is the caller's) *)
  Theorem transform_identity t p : RT norm unk t p -> transform norm idcb (V t p) = Ok (V t p).
  Proof.
    intros R. unfold transform. cbn [vp]. apply (transform_identity_at (pdepth p) t p R (le_n _)).
    pose proof (pdepth_le_psize p). lia.
  Qed.
End WalkIdentity.
