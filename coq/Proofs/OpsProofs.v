(* OpsProofs.v — lemmas about the operation methods on known values (C02). *)
From Coq Require Import Lia.
From Cty Require Import Base Ty BigFloat Value Hash Ops Refine.
Open Scope Z_scope.

(* ---------- boolean operations: truth tables ---------- *)
Lemma not_truth b : not_v (v_bool b) = Ok (v_bool (negb b)).
Proof. destruct b; reflexivity. Qed.
Lemma and_truth a b : and_v (v_bool a) (v_bool b) = Ok (v_bool (a && b)).
Proof. destruct a, b; reflexivity. Qed.
Lemma or_truth a b : or_v (v_bool a) (v_bool b) = Ok (v_bool (a || b)).
Proof. destruct a, b; reflexivity. Qed.

(* operands of the wrong type are rejected (Go panic), never answered *)
Lemma and_wrong_type pa t p : is_dyn t = false -> ty_equals t TBool = false ->
  and_u (V TBool pa) (V t p) = Panic.
Proof. intros Hd Ht. unfold and_u. cbn [type_check vty is_dyn ty_equals negb]. rewrite Hd, Ht. reflexivity. Qed.
Lemma add_wrong_type pa t p : is_dyn t = false -> ty_equals t TNum = false ->
  arith_at 4 OpAdd (V TNum pa) (V t p) = Panic.
Proof. intros Hd Ht. cbn [arith_at]. unfold arith_step. cbn [type_check vty is_dyn ty_equals negb]. rewrite Hd, Ht. reflexivity. Qed.

(* ---------- integers as numbers ---------- *)
Lemma bitlen_nonneg n : 0 <= bitlen n.
Proof. unfold bitlen. lia. Qed.

Lemma bf_int_of_int i : bf_int (bf_of_int i) = (Some i, Exact).
Proof.
  unfold bf_int, bf_of_int.
  destruct (Z.to_N (Z.abs i)) eqn:E.
  - assert (i = 0) by lia. subst. reflexivity.
  - cbn [Z.leb Z.compare]. rewrite N.shiftl_0_r. rewrite <- E.
    destruct (i <? 0) eqn:S.
    + apply Z.ltb_lt in S. f_equal. f_equal. rewrite Z2N.id by lia. lia.
    + apply Z.ltb_ge in S. f_equal. f_equal. rewrite Z2N.id by lia. lia.
Qed.

Lemma bf_int64_of_int i : int64_min <= i <= int64_max -> bf_int64 (bf_of_int i) = (i, Exact).
Proof.
  intros H. unfold bf_int64. rewrite bf_int_of_int.
  destruct (i <? int64_min) eqn:A; [apply Z.ltb_lt in A; lia|].
  destruct (int64_max <? i) eqn:B; [apply Z.ltb_lt in B; lia|]. reflexivity.
Qed.

Lemma index_of_key_int i : 0 <= i <= int64_max -> index_of_key (v_int i) = Ok (Some i).
Proof.
  intros H. unfold index_of_key, v_int, v_num. cbn [vp].
  rewrite bf_int64_of_int by (unfold int64_min, int64_max in *; lia).
  cbn [acc_eqb andb]. destruct (0 <=? i) eqn:E; [reflexivity|apply Z.leb_gt in E; lia].
Qed.

(* ---------- Index / HasIndex on known lists ---------- *)
(* a known, non-null, unmarked list and a known number key *)
Lemma index_iff_hasindex_list e l n id :
  let v := V (TList e) (PSeq l) in let key := V TNum (PNum n id) in
  (exists r, index_u v key = Ok r) <-> has_index_u v key = Ok v_true.
Proof.
  intros v key. unfold index_u, has_index_u, v, key. cbn [vty vp is_dyn is_num_ty p_is_unk negb index_of_key bind].
  destruct (bf_int64 n) as [i a]. destruct (acc_eqb a Exact && (0 <=? i)) eqn:E; cbn [bind].
  - apply andb_true_iff in E as [_ E]. apply Z.leb_le in E.
    destruct (nth_error l (Z.to_nat i)) eqn:N.
    + split; [intros _|eauto].
      assert (Z.to_nat i < length l)%nat by (apply nth_error_Some; congruence).
      f_equal. unfold v_true, v_bool. f_equal. f_equal. apply Z.ltb_lt. lia.
    + split; [intros [r Hr]; discriminate|].
      intros H. injection H as H. apply Z.ltb_lt in H.
      apply nth_error_None in N. lia.
  - split; [intros [r Hr]; discriminate|intros H; discriminate].
Qed.

Lemma index_iff_hasindex_tuple es l n id : length l = length es ->
  let v := V (TTuple es) (PSeq l) in let key := V TNum (PNum n id) in
  (exists r, index_u v key = Ok r) <-> has_index_u v key = Ok v_true.
Proof.
  intros L v key. unfold index_u, has_index_u, v, key. cbn [vty vp is_dyn is_num_ty p_is_unk negb index_of_key bind].
  destruct (bf_int64 n) as [i a]. destruct (acc_eqb a Exact && (0 <=? i)) eqn:E; cbn [bind].
  - apply andb_true_iff in E as [_ E]. apply Z.leb_le in E.
    destruct (nth_error es (Z.to_nat i)) eqn:N.
    + assert (Hlt : (Z.to_nat i < length es)%nat) by (apply nth_error_Some; congruence).
      destruct (nth_error l (Z.to_nat i)) eqn:N2.
      * split; [intros _|eauto]. f_equal. unfold v_true, v_bool. f_equal. f_equal. apply Z.ltb_lt. lia.
      * apply nth_error_None in N2. lia.
    + split; [intros [r Hr]; discriminate|].
      intros H. injection H as H. apply Z.ltb_lt in H. apply nth_error_None in N. lia.
  - split; [intros [r Hr]; discriminate|intros H; discriminate].
Qed.

(* the members a list was constructed from come back, with the list's element type *)
Lemma list_val_length vs v : list_val vs = Ok v -> length_int v = Ok (Z.of_nat (length vs)).
Proof.
  unfold list_val. destruct vs as [|x vs]; [discriminate|].
  destruct (unify_elem_ty TDyn (map vty (x :: vs))) as [et|]; [|discriminate].
  intros H. injection H as <-. unfold length_int. simpl. rewrite map_length. reflexivity.
Qed.

Lemma list_val_index vs v i : list_val vs = Ok v -> (i < length vs)%nat -> Z.of_nat i <= int64_max ->
  exists et, vty v = TList et /\
  index_u v (v_int (Z.of_nat i)) = Ok (V et (vp (nth i vs v_dyn))).
Proof.
  unfold list_val. destruct vs as [|x vs]; [discriminate|].
  destruct (unify_elem_ty TDyn (map vty (x :: vs))) as [et|]; [|discriminate].
  intros H Hi Hm. injection H as <-. exists et. split; [reflexivity|].
  unfold index_u. cbn [vty vp is_dyn]. change (vty (v_int (Z.of_nat i))) with TNum.
  cbn [is_dyn is_num_ty negb]. change (p_is_unk (vp (v_int (Z.of_nat i)))) with false.
  cbn [p_is_unk]. rewrite index_of_key_int by lia. cbn [bind]. rewrite Nat2Z.id.
  change (vp x :: map vp vs) with (map vp (x :: vs)).
  rewrite nth_error_map. rewrite (nth_error_nth' _ v_dyn Hi). reflexivity.
Qed.

(* ---------- division by zero: the documented signed infinity ---------- *)
Lemma quo_by_zero nx sx ex px ny ey py : sx <> 0%N ->
  bf_quo (BFin nx sx ex px) (BFin ny 0 ey py) = Some (BInf (xorb nx ny) (Z.max px py)).
Proof. intros H. unfold bf_quo. cbn [bf_prec]. destruct sx; [congruence|reflexivity]. Qed.

Lemma quo_zero_zero nx ex px ny ey py : bf_quo (BFin nx 0 ex px) (BFin ny 0 ey py) = None.
Proof. reflexivity. Qed.

(* ---------- exactness: no rounding when the exact result fits the precision ---------- *)
Lemma round_sig_fits sig e prec : bitlen sig <= prec -> round_sig sig false e prec = (sig, e, Exact).
Proof. intros H. unfold round_sig. destruct (bitlen sig <=? prec) eqn:E; [reflexivity|apply Z.leb_gt in E; lia]. Qed.

(* value of a finite big.Float as an exact dyadic: (sign, sig, e) denotes ± sig * 2^e *)
Lemma add_same_sign_fits n s1 e1 p1 s2 e2 p2 :
  s1 <> 0%N -> s2 <> 0%N ->
  let '(a, b, e) := align s1 e1 s2 e2 in
  let p := Z.max p1 p2 in
  bitlen (a + b) <= p ->
  min_exp <= e + bitlen (a + b) <= max_exp ->
  bf_add (BFin n s1 e1 p1) (BFin n s2 e2 p2) = Some (BFin n (a + b) e p).
Proof.
  intros H1 H2. destruct (align s1 e1 s2 e2) as [[a b] e] eqn:A. intros p Hfit Hrange.
  unfold bf_add. cbn [bf_prec]. destruct s1; [congruence|]. destruct s2; [congruence|].
  rewrite A. rewrite eqb_reflx. unfold mk. fold p. rewrite round_sig_fits by exact Hfit.
  unfold max_exp, min_exp in Hrange.
  destruct (2147483647 <? e + bitlen (a + b)) eqn:X; [apply Z.ltb_lt in X; lia|].
  destruct (e + bitlen (a + b) <? -2147483648) eqn:Y; [apply Z.ltb_lt in Y; lia|]. reflexivity.
Qed.
