(* FuncProofs.v — the function-call protocol enforces every declared parameter contract (C10),
   for all specifications (arbitrary callbacks) and all argument lists. *)
From Coq Require Import Lia.
From Cty Require Import Base Ty BigFloat Value Hash Ops Refine Func.
Open Scope Z_scope.

(* ---------- induction principle for payloads (nested lists) ---------- *)
Section payload_ind2.
  Variable P : payload -> Prop.
  Hypothesis Hunk : forall r, P (PUnk r).
  Hypothesis Hnull : P PNull.
  Hypothesis Hbool : forall b, P (PBool b).
  Hypothesis Hnum : forall n i, P (PNum n i).
  Hypothesis Hstr : forall s, P (PStr s).
  Hypothesis Hseq : forall l, Forall P l -> P (PSeq l).
  Hypothesis Hmap : forall m, Forall (fun kv => P (snd kv)) m -> P (PMap m).
  Hypothesis Hset : forall bs, Forall (fun b => Forall P (snd b)) bs -> P (PSet bs).
  Hypothesis Hcap : forall c, P (PCap c).
  Hypothesis Hmarked : forall ms p, P p -> P (PMarked ms p).
  Fixpoint payload_ind2 (p : payload) : P p :=
    match p with
    | PUnk r => Hunk r | PNull => Hnull | PBool b => Hbool b | PNum n i => Hnum n i | PStr s => Hstr s
    | PSeq l => Hseq l ((fix go (l : list payload) : Forall P l :=
                           match l with [] => Forall_nil _ | x :: l' => Forall_cons _ (payload_ind2 x) (go l') end) l)
    | PMap m => Hmap m ((fix go (l : list (str * payload)) : Forall (fun kv => P (snd kv)) l :=
                           match l with [] => Forall_nil _ | x :: l' => Forall_cons _ (payload_ind2 (snd x)) (go l') end) m)
    | PSet bs => Hset bs ((fix gob (l : list (Z * list payload)) : Forall (fun b => Forall P (snd b)) l :=
                             match l with
                             | [] => Forall_nil _
                             | b :: l' => Forall_cons _ ((fix go (m : list payload) : Forall P m :=
                                                            match m with [] => Forall_nil _ | x :: m' => Forall_cons _ (payload_ind2 x) (go m') end) (snd b)) (gob l')
                             end) bs)
    | PCap c => Hcap c
    | PMarked ms p' => Hmarked ms p' (payload_ind2 p')
    end.
End payload_ind2.

(* ---------- deep unmarking leaves no mark behind and keeps type, nullness, knownness ---------- *)
Lemma marks_union_nil_l b : marks_union [] b = [] -> b = [].
Proof.
  destruct b as [|m b]; auto. unfold marks_union. simpl.
  assert (G : forall l acc, acc <> [] -> fold_left (fun acc m => mark_insert m acc) l acc <> []).
  { induction l as [|x l IH]; simpl; auto. intros acc Ha. apply IH. destruct acc; [congruence|]. simpl.
    destruct (x <? m0)%N; [discriminate|]. destruct (x =? m0)%N; discriminate. }
  intros H. exfalso. apply (G b [m]); [discriminate|exact H].
Qed.

Lemma deep_marks_strip : forall p, deep_marks (strip_marks p) = [].
Proof.
  induction p using payload_ind2; simpl; auto.
  - (* PSeq *) induction H as [|x l Hx _ IH]; simpl; auto. rewrite Hx. simpl. exact IH.
  - (* PMap *)
    assert (G : forall acc, (fix go (l : list (str * payload)) (acc : list mark) {struct l} : list mark :=
        match l with [] => acc | kv :: l' => go l' (marks_union acc (deep_marks (snd kv))) end)
        ((fix go (l : list (str * payload)) : list (str * payload) :=
            match l with [] => [] | kv :: l' => (fst kv, strip_marks (snd kv)) :: go l' end) m) acc = acc).
    { induction H as [|x l Hx _ IH]; intros acc; simpl; auto. rewrite Hx. simpl. apply IH. }
    apply G.
Qed.

Lemma strip_not_marked v : contains_marked (fst (unmark_deep v)) = false.
Proof. unfold contains_marked, unmark_deep. cbn [fst vp]. rewrite deep_marks_strip. reflexivity. Qed.

Lemma strip_ty v : vty (fst (unmark_deep v)) = vty v.
Proof. reflexivity. Qed.

Lemma top_payload_strip : forall p, top_payload (strip_marks p) = strip_marks (top_payload p).
Proof.
  induction p using payload_ind2; simpl; auto.
Qed.

Lemma strip_top_shape p : match top_payload p with PMarked _ _ => False | _ => True end.
Proof. induction p using payload_ind2; simpl; auto. Qed.

Lemma strip_is_null v : is_null (fst (unmark_deep v)) = is_null v.
Proof.
  unfold is_null, unmark_deep. cbn [fst vp vty]. rewrite top_payload_strip.
  pose proof (strip_top_shape (vp v)) as S. destruct (top_payload (vp v)); try reflexivity. contradiction.
Qed.

Lemma strip_is_known v : is_known (fst (unmark_deep v)) = is_known v.
Proof.
  unfold is_known, unmark_deep. cbn [fst vp vty]. rewrite top_payload_strip.
  pose proof (strip_top_shape (vp v)) as S. destruct (top_payload (vp v)); try reflexivity. contradiction.
Qed.

(* ---------- every argument index of an admissible-length call has a governing parameter ---------- *)
Lemma param_at_some sp n i : arity_ok sp n = true -> (i < n)%nat -> exists p, param_at sp i = Some p.
Proof.
  unfold arity_ok, param_at. intros A L.
  destruct (nth_error (s_params sp) i) as [p|] eqn:E; [eauto|].
  destruct (s_var sp) as [vp|]; [eauto|].
  apply Nat.eqb_eq in A. apply nth_error_None in E. lia.
Qed.

Lemma meets_of_checks p v :
  (is_null v && negb (p_null p)) = false ->
  (if is_dyn (vty v) then p_dyn p else conforms (vty v) (p_ty p)) = true ->
  (negb (is_known v) && negb (p_unk p)) = false ->
  meets_contract p (strip_arg p v) = true.
Proof.
  intros Hn Ht Hu. unfold meets_contract, strip_arg.
  assert (T : vty (if p_marked p then v else fst (unmark_deep v)) = vty v) by (destruct (p_marked p); reflexivity).
  assert (N : is_null (if p_marked p then v else fst (unmark_deep v)) = is_null v) by (destruct (p_marked p); [reflexivity|apply strip_is_null]).
  assert (K : is_known (if p_marked p then v else fst (unmark_deep v)) = is_known v) by (destruct (p_marked p); [reflexivity|apply strip_is_known]).
  rewrite T, N, K.
  assert (M : (p_marked p || negb (contains_marked (if p_marked p then v else fst (unmark_deep v)))) = true).
  { destruct (p_marked p); [reflexivity|]. rewrite strip_not_marked. reflexivity. }
  rewrite M.
  destruct (is_dyn (vty v)) eqn:D; cbn [orb].
  - rewrite Ht. cbn [negb orb andb].
    destruct (p_null p), (is_null v), (p_unk p), (is_known v); cbn in *; try discriminate; reflexivity.
  - rewrite Ht. cbn [negb orb andb]. rewrite orb_true_r.
    destruct (p_null p), (is_null v), (p_unk p), (is_known v); cbn in *; try discriminate; reflexivity.
Qed.

Lemma all_meet_of_checks sp n : arity_ok sp n = true ->
  forall args i, (i + length args = n)%nat ->
  check_args sp i args = PcOk -> any_unknown sp i args = false ->
  all_meet sp i (strip_args sp i args) = true.
Proof.
  intros A. induction args as [|v args IH]; intros i L C U; [reflexivity|].
  cbn [length] in L. destruct (param_at_some sp n i A ltac:(lia)) as (p & Hp).
  cbn [check_args any_unknown strip_args all_meet] in *. rewrite Hp in *.
  destruct (is_null v && negb (p_null p)) eqn:Hn; [discriminate|].
  apply orb_false_iff in U as [Hu U'].
  destruct (is_dyn (vty v)) eqn:D.
  - destruct (negb (p_dyn p)) eqn:Pd; [discriminate|]. apply negb_false_iff in Pd.
    rewrite (meets_of_checks p v Hn) by (rewrite ?D; auto). cbn [andb]. apply IH; auto. lia.
  - destruct (negb (conforms (vty v) (p_ty p))) eqn:Cf; [discriminate|]. apply negb_false_iff in Cf.
    rewrite (meets_of_checks p v Hn) by (rewrite ?D; auto). cbn [andb]. apply IH; auto. lia.
Qed.

(* ---------- the trace of Call ---------- *)
(* the implementation callback runs only after the type callback accepted the same arguments,
   and only with arguments that satisfy the declared contract *)
Theorem call_contract sp args r tr : call sp args = (r, tr) ->
  forall a t ri, In (EvImpl a t ri) tr ->
  tr = [EvType a (Ok t); EvImpl a t ri] /\ all_meet sp 0 a = true.
Proof.
  unfold call, rtfv. intros H a t ri Hin.
  destruct (negb (arity_ok sp (length args))) eqn:A.
  - injection H as <- <-. inversion Hin.
  - apply negb_false_iff in A.
    destruct (check_args sp 0 args) eqn:C.
    + injection H as <- <-. inversion Hin.
    + cbn in H. injection H as _ <-. inversion Hin.
    + destruct (s_type sp (strip_args sp 0 args)) as [t0|e| |] eqn:T.
      * destruct (false || any_unknown sp 0 args) eqn:U.
        -- injection H as <- <-. destruct Hin as [Hin|[]]. discriminate.
        -- injection H as <- <-. cbn in Hin. destruct Hin as [Hin|[Hin|[]]]; [discriminate|].
           injection Hin as <- <- <-. split; [reflexivity|].
           apply (all_meet_of_checks sp (length args) A args 0%nat); auto.
      * injection H as <- <-. destruct Hin as [Hin|[]]. discriminate.
      * injection H as <- <-. destruct Hin as [Hin|[]]. discriminate.
      * injection H as <- <-. destruct Hin as [Hin|[]]. discriminate.
Qed.

(* the type callback, too, only ever sees arguments stripped of the marks the function does not
   handle, and it is the only thing that runs before the implementation *)
Theorem call_trace_shape sp args r tr : call sp args = (r, tr) ->
  tr = [] \/ (exists rt, tr = [EvType (strip_args sp 0 args) rt]) \/
  (exists t ri, tr = [EvType (strip_args sp 0 args) (Ok t); EvImpl (strip_args sp 0 args) t ri]).
Proof.
  unfold call, rtfv. intros H.
  destruct (negb (arity_ok sp (length args))); [injection H as <- <-; auto|].
  destruct (check_args sp 0 args); [injection H as <- <-; auto| |].
  - cbn in H. injection H as _ <-. auto.
  - destruct (s_type sp (strip_args sp 0 args)) as [t0|e| |] eqn:T.
    + destruct (false || any_unknown sp 0 args); injection H as <- <-; [right; left; eauto|right; right; eauto].
    + injection H as <- <-. right; left; eauto.
    + injection H as <- <-. right; left; eauto.
    + injection H as <- <-. right; left; eauto.
Qed.

(* no Go panic escapes Call: callback panics, non-conforming results and panicking refinements
   all come back as errors *)
Lemma apply_refine_no_panic sp reg r : r <> Panic -> apply_refine sp reg r <> Panic.
Proof.
  intros H. unfold apply_refine. destruct r as [v|e| |]; try congruence.
  destruct (s_refine sp) as [cs|]; [|congruence].
  destruct (reg && (is_known v || negb (is_dyn (vty v)))); [|congruence].
  destruct (rb_run (fun s => s) v cs); congruence.
Qed.

Theorem call_no_panic sp args : fst (call sp args) <> Panic.
Proof.
  unfold call, rtfv.
  destruct (negb (arity_ok sp (length args))); [cbn; congruence|].
  destruct (check_args sp 0 args); [cbn; congruence| |].
  - cbn -[apply_refine]. apply apply_refine_no_panic. congruence.
  - destruct (s_type sp (strip_args sp 0 args)) as [t0|e| |]; try (cbn; congruence).
    destruct (false || any_unknown sp 0 args); cbn [fst].
    + apply apply_refine_no_panic. congruence.
    + apply apply_refine_no_panic.
      destruct (s_impl sp (strip_args sp 0 args) t0) as [rv|e| |]; try congruence.
      destruct (conforms _ t0); congruence.
Qed.


(* an argument error raised by the protocol names an argument that violates its parameter *)
Lemma check_args_err sp : forall args i0 e, check_args sp i0 args = PcErr e ->
  exists k v p, e = ArgError (Z.of_nat (i0 + k)) /\ nth_error args k = Some v /\ param_at sp (i0 + k)%nat = Some p /\
    ((is_null v && negb (p_null p)) = true \/ (is_dyn (vty v) = false /\ conforms (vty v) (p_ty p) = false)).
Proof.
  induction args as [|v args IH]; intros i0 e H; [discriminate|].
  cbn [check_args] in H. destruct (param_at sp i0) as [p|] eqn:P; [|discriminate].
  destruct (is_null v && negb (p_null p)) eqn:N.
  - injection H as <-. exists 0%nat, v, p. rewrite Nat.add_0_r.
    split; [reflexivity|]. split; [reflexivity|]. split; [exact P|]. left. exact N.
  - destruct (is_dyn (vty v)) eqn:D.
    + destruct (negb (p_dyn p)); [discriminate|].
      destruct (IH _ _ H) as (k & v' & p' & -> & Hn & Hp & Hv). exists (S k), v', p'.
      replace (i0 + S k)%nat with (S i0 + k)%nat by lia. auto.
    + destruct (negb (conforms (vty v) (p_ty p))) eqn:C.
      * injection H as <-. exists 0%nat, v, p. rewrite Nat.add_0_r. apply negb_true_iff in C.
        split; [reflexivity|]. split; [reflexivity|]. split; [exact P|]. right. split; assumption.
      * destruct (IH _ _ H) as (k & v' & p' & -> & Hn & Hp & Hv). exists (S k), v', p'.
        replace (i0 + S k)%nat with (S i0 + k)%nat by lia. auto.
Qed.

(* when the implementation does not run and the call succeeds, the result is the unknown value of
   the checked return type carrying every mark of the arguments the function does not handle itself
   (then refined as declared) *)
Theorem call_short_circuit sp args v tr : call sp args = (Ok v, tr) ->
  (forall a t ri, ~ In (EvImpl a t ri) tr) ->
  exists expected reg,
    Ok v = apply_refine sp reg (Ok (with_marks (v_unknown expected) (collect_marks sp 0 args))).
Proof.
  unfold call, rtfv. intros H NI.
  destruct (negb (arity_ok sp (length args))); [discriminate|].
  destruct (check_args sp 0 args); [discriminate| |].
  - cbn -[apply_refine] in H. injection H as H _. exists TDyn, false. symmetry. exact H.
  - destruct (s_type sp (strip_args sp 0 args)) as [t0|e| |] eqn:T; try discriminate.
    destruct (false || any_unknown sp 0 args).
    + injection H as H _. exists t0, true. symmetry. exact H.
    + injection H as _ <-. exfalso. eapply NI. right. left. reflexivity.
Qed.
