(* MarksProofs.v — marks never change results, are never lost where promised, never invented (C04). *)
From Coq Require Import Lia.
From Cty Require Import Base Ty BigFloat Value Hash Ops Refine.
Open Scope Z_scope.

Lemma marks_union_nil_r a : marks_union a [] = a.
Proof. reflexivity. Qed.

Lemma unmark_spec v : unmark v = (unmark_force v, marks_of v).
Proof. unfold unmark_force, marks_of. destruct (unmark v); reflexivity. Qed.

(* with_marks v [] is v *)
Lemma with_marks_nil_any v : with_marks v [] = v.
Proof.
  unfold with_marks, unmark. destruct v as [t p]. destruct p; cbn [vp vty]; try reflexivity.
  rewrite marks_union_nil_r. destruct ms; reflexivity.
Qed.

(* the marks on with_marks v ms are the union of v's own marks and ms *)
Lemma marks_of_with_marks v ms : marks_of (with_marks v ms) = marks_union (marks_of v) ms \/
                                  (marks_union (marks_of v) ms = [] /\ marks_of (with_marks v ms) = marks_of v).
Proof.
  unfold with_marks. rewrite unmark_spec. destruct (marks_union (marks_of v) ms) eqn:E.
  - right. split; reflexivity.
  - left. unfold marks_of, unmark. cbn [vp]. reflexivity.
Qed.

Lemma unmark_force_with_marks v ms : unmark_force (with_marks v ms) = unmark_force v.
Proof.
  unfold with_marks. rewrite unmark_spec. destruct (marks_union (marks_of v) ms) eqn:E; [reflexivity|].
  unfold unmark_force at 1, unmark at 1. cbn [vp vty fst].
  unfold unmark_force, unmark. destruct v as [t p]; destruct p; reflexivity.
Qed.

(* ---------- every unary / binary operation method: unmark operands, recurse, re-apply the union ---------- *)
Theorem unary_marks_spec f v res : unary_marks f v = Ok res ->
  exists r, f (unmark_force v) = Ok r /\ res = with_marks r (marks_of v).
Proof.
  unfold unary_marks. destruct (is_marked v) eqn:M.
  - rewrite unmark_spec. destruct (f (unmark_force v)) as [r| | |]; cbn [bind]; try discriminate.
    intros H. injection H as <-. eauto.
  - intros H. assert (U : unmark v = (v, [])).
    { unfold is_marked in M. unfold unmark. destruct (vp v); try discriminate; reflexivity. }
    unfold unmark_force, marks_of. rewrite U. cbn [fst snd]. exists res. split; auto. symmetry. apply with_marks_nil_any.
Qed.

Theorem binary_marks_spec f a b res : binary_marks f a b = Ok res ->
  exists r, f (unmark_force a) (unmark_force b) = Ok r /\ res = with_marks r (marks_union (marks_of a) (marks_of b)).
Proof.
  unfold binary_marks. destruct (is_marked a || is_marked b) eqn:M.
  - rewrite !unmark_spec. destruct (f (unmark_force a) (unmark_force b)) as [r| | |]; cbn [bind]; try discriminate.
    intros H. injection H as <-. eauto.
  - apply orb_false_iff in M as [Ma Mb]. intros H.
    assert (Ua : unmark a = (a, [])) by (unfold is_marked in Ma; unfold unmark; destruct (vp a); try discriminate; reflexivity).
    assert (Ub : unmark b = (b, [])) by (unfold is_marked in Mb; unfold unmark; destruct (vp b); try discriminate; reflexivity).
    unfold unmark_force, marks_of. rewrite Ua, Ub. cbn [fst snd]. exists res. split; auto. symmetry. apply with_marks_nil_any.
Qed.

(* marking never turns success into failure or vice versa: the outcome class is that of the stripped run *)
Theorem binary_marks_outcome f a b :
  match binary_marks f a b, f (unmark_force a) (unmark_force b) with
  | Ok _, Ok _ | Panic, Panic | Err _, Err _ | OutOfFuel, OutOfFuel => True
  | _, _ => False
  end.
Proof.
  unfold binary_marks. destruct (is_marked a || is_marked b) eqn:M.
  - rewrite !unmark_spec. destruct (f (unmark_force a) (unmark_force b)); cbn [bind]; auto.
  - apply orb_false_iff in M as [Ma Mb].
    assert (Ua : unmark a = (a, [])) by (unfold is_marked in Ma; unfold unmark; destruct (vp a); try discriminate; reflexivity).
    assert (Ub : unmark b = (b, [])) by (unfold is_marked in Mb; unfold unmark; destruct (vp b); try discriminate; reflexivity).
    unfold unmark_force. rewrite Ua, Ub. cbn [fst]. destruct (f a b); auto.
Qed.

(* the unmarked result is the unmarked result of the stripped run (non-interference at the top level) *)
Corollary binary_marks_noninterference f a b res : binary_marks f a b = Ok res ->
  exists r, f (unmark_force a) (unmark_force b) = Ok r /\ unmark_force res = unmark_force r.
Proof.
  intros H. destruct (binary_marks_spec _ _ _ _ H) as (r & Hr & ->). exists r. split; auto. apply unmark_force_with_marks.
Qed.

(* Equals: nested marks are collected onto the result (one step of the fuel-indexed definition) *)
Theorem equals_deep_marks r order a b : contains_marked a || contains_marked b = true ->
  equals_step r order a b =
  (do res <- r.(e_equals) (fst (unmark_deep a)) (fst (unmark_deep b));
   Ok (with_marks res (marks_union (snd (unmark_deep a)) (snd (unmark_deep b))))).
Proof. intros H. unfold equals_step. rewrite H. reflexivity. Qed.

(* SetVal: marks of the members move to the set; the members are stored unmarked *)
Theorem set_val_hoists vs s : set_val vs = Ok s ->
  exists et bs, unmark_force s = V (TSet et) (PSet bs) /\
  s = with_marks (V (TSet et) (PSet bs)) (fold_left (fun acc um => marks_union acc (snd um)) (map unmark_deep vs) []).
Proof.
  unfold set_val. destruct vs as [|v vs]; [discriminate|].
  destruct (unify_elem_ty TDyn _) as [et|]; [|discriminate].
  destruct (set_from_list et _) as [bs| | |]; cbn [bind]; try discriminate.
  intros H. injection H as <-. exists et, bs. split; [|reflexivity]. rewrite unmark_force_with_marks. reflexivity.
Qed.
