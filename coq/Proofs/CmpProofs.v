(* CmpProofs.v — big.Float.Cmp as modelled (bf_cmp) is the order of the exact values: it agrees
   with the comparison of exactly scaled integers, hence is a total preorder (used by C01–C03). *)
From Coq Require Import Lia ZArith NArith.
From Cty Require Import Base BigFloat.
Open Scope Z_scope.

(* the exact magnitude scaled to a common exponent m <= e: sig * 2^(e - m) *)
Definition sc (m : Z) (s : N) (e : Z) : Z := Z.of_N s * 2 ^ (e - m).

Lemma shiftl_Z s k : 0 <= k -> Z.of_N (N.shiftl s (Z.to_N k)) = Z.of_N s * 2 ^ k.
Proof.
  intros Hk. rewrite N.shiftl_mul_pow2. rewrite N2Z.inj_mul, N2Z.inj_pow. rewrite Z2N.id by lia. reflexivity.
Qed.

Lemma mag_cmp_scaled s1 e1 s2 e2 m : m <= e1 -> m <= e2 ->
  mag_cmp s1 e1 s2 e2 = Z.compare (sc m s1 e1) (sc m s2 e2).
Proof.
  intros H1 H2. unfold mag_cmp, align, sc.
  destruct (e1 <=? e2) eqn:E.
  - apply Z.leb_le in E. rewrite <- N2Z.inj_compare. rewrite shiftl_Z by lia.
    replace (e2 - m) with ((e2 - e1) + (e1 - m)) by lia. rewrite Z.pow_add_r by lia.
    rewrite Z.mul_assoc. apply Zmult_compare_compat_r.
    apply Z.lt_gt. apply Z.pow_pos_nonneg; lia.
  - apply Z.leb_gt in E. rewrite <- N2Z.inj_compare. rewrite shiftl_Z by lia.
    replace (e1 - m) with ((e1 - e2) + (e2 - m)) by lia. rewrite Z.pow_add_r by lia.
    rewrite Z.mul_assoc. apply Zmult_compare_compat_r.
    apply Z.lt_gt. apply Z.pow_pos_nonneg; lia.
Qed.

(* the signed exact value at scale m; infinities are handled by case analysis *)
Definition zv (m : Z) (x : bf) : Z :=
  match x with
  | BFin n s e _ => (if n then -1 else 1) * sc m s e
  | BInf _ _ => 0
  end.
Definition fin_exp (x : bf) : Z := match x with BFin _ _ e _ => e | BInf _ _ => 0 end.
Definition is_fin (x : bf) : bool := match x with BFin _ _ _ _ => true | _ => false end.

Lemma sc_pos m s e : s <> 0%N -> m <= e -> 0 < sc m s e.
Proof.
  intros Hs Hm. unfold sc. apply Z.mul_pos_pos; [lia|apply Z.pow_pos_nonneg; lia].
Qed.
Lemma sc_zero m e : sc m 0 e = 0.
Proof. reflexivity. Qed.

Lemma bf_cmp_fin m x y : is_fin x = true -> is_fin y = true -> m <= fin_exp x -> m <= fin_exp y ->
  bf_cmp x y = Z.compare (zv m x) (zv m y).
Proof.
  destruct x as [|nx sx ex px]; [discriminate|]. destruct y as [|ny sy ey py]; [discriminate|].
  intros _ _ Hx Hy. cbn [fin_exp] in Hx, Hy. unfold bf_cmp, zv.
  destruct sx as [|px'] eqn:Sx; destruct sy as [|py'] eqn:Sy.
  - rewrite !sc_zero. destruct nx, ny; simpl; reflexivity.
  - rewrite sc_zero. pose proof (sc_pos m (N.pos py') ey ltac:(discriminate) Hy) as P.
    destruct nx, ny; rewrite ?Z.mul_0_r; symmetry; try (apply Z.compare_gt_iff; lia); try (apply Z.compare_lt_iff; lia).
  - rewrite sc_zero. pose proof (sc_pos m (N.pos px') ex ltac:(discriminate) Hx) as P.
    destruct nx, ny; rewrite ?Z.mul_0_r; symmetry; try (apply Z.compare_gt_iff; lia); try (apply Z.compare_lt_iff; lia).
  - pose proof (sc_pos m (N.pos px') ex ltac:(discriminate) Hx) as P1.
    pose proof (sc_pos m (N.pos py') ey ltac:(discriminate) Hy) as P2.
    rewrite (mag_cmp_scaled _ _ _ _ m Hx Hy).
    destruct nx, ny; cbn [Bool.eqb].
    + (* both negative *)
      replace (-1 * sc m (N.pos px') ex) with (- sc m (N.pos px') ex) by lia.
      replace (-1 * sc m (N.pos py') ey) with (- sc m (N.pos py') ey) by lia.
      rewrite Z.compare_opp. rewrite (Z.compare_antisym (sc m (N.pos px') ex)). reflexivity.
    + symmetry. apply Z.compare_lt_iff. lia.
    + symmetry. apply Z.compare_gt_iff. lia.
    + rewrite !Z.mul_1_l. reflexivity.
Qed.

Definition min3 (a b c : Z) := Z.min a (Z.min b c).

Lemma bf_cmp_refl x : bf_cmp x x = Eq.
Proof.
  destruct x as [n p|n s e p].
  - simpl. rewrite eqb_reflx. reflexivity.
  - rewrite (bf_cmp_fin e) by (simpl; auto; lia). apply Z.compare_refl.
Qed.

Lemma bf_cmp_antisym x y : bf_cmp y x = CompOpp (bf_cmp x y).
Proof.
  destruct x as [nx px|nx sx ex px], y as [ny py|ny sy ey py].
  - simpl. destruct nx, ny; reflexivity.
  - simpl. destruct nx; reflexivity.
  - simpl. destruct ny; reflexivity.
  - rewrite (bf_cmp_fin (Z.min ex ey)) by (simpl; auto; lia).
    rewrite (bf_cmp_fin (Z.min ex ey) (BFin nx sx ex px)) by (simpl; auto; lia).
    apply Z.compare_antisym.
Qed.

(* transitivity in all the mixtures of < and <= that the range reasoning needs *)
Lemma bf_lt_trans x y z : bf_ltb x y = true -> bf_ltb y z = true -> bf_ltb x z = true.
Proof.
  unfold bf_ltb.
  destruct x as [nx px|nx sx ex px], y as [ny py|ny sy ey py], z as [nz pz|nz sz ez pz];
    try (simpl; destruct nx; try destruct ny; try destruct nz; simpl; congruence).
  set (m := min3 ex ey ez).
  rewrite (bf_cmp_fin m (BFin nx sx ex px) (BFin ny sy ey py)) by (simpl; auto; unfold m, min3; lia).
  rewrite (bf_cmp_fin m (BFin ny sy ey py) (BFin nz sz ez pz)) by (simpl; auto; unfold m, min3; lia).
  rewrite (bf_cmp_fin m (BFin nx sx ex px) (BFin nz sz ez pz)) by (simpl; auto; unfold m, min3; lia).
  destruct (Z.compare_spec (zv m (BFin nx sx ex px)) (zv m (BFin ny sy ey py))); try discriminate.
  destruct (Z.compare_spec (zv m (BFin ny sy ey py)) (zv m (BFin nz sz ez pz))); try discriminate.
  destruct (Z.compare_spec (zv m (BFin nx sx ex px)) (zv m (BFin nz sz ez pz))); auto; lia.
Qed.

Lemma bf_le_lt_trans x y z : bf_leb x y = true -> bf_ltb y z = true -> bf_ltb x z = true.
Proof.
  unfold bf_leb, bf_ltb.
  destruct x as [nx px|nx sx ex px], y as [ny py|ny sy ey py], z as [nz pz|nz sz ez pz];
    try (simpl; destruct nx; try destruct ny; try destruct nz; simpl; congruence).
  set (m := min3 ex ey ez).
  rewrite (bf_cmp_fin m (BFin nx sx ex px) (BFin ny sy ey py)) by (simpl; auto; unfold m, min3; lia).
  rewrite (bf_cmp_fin m (BFin ny sy ey py) (BFin nz sz ez pz)) by (simpl; auto; unfold m, min3; lia).
  rewrite (bf_cmp_fin m (BFin nx sx ex px) (BFin nz sz ez pz)) by (simpl; auto; unfold m, min3; lia).
  destruct (Z.compare_spec (zv m (BFin nx sx ex px)) (zv m (BFin ny sy ey py))); try discriminate;
  destruct (Z.compare_spec (zv m (BFin ny sy ey py)) (zv m (BFin nz sz ez pz))); try discriminate;
  destruct (Z.compare_spec (zv m (BFin nx sx ex px)) (zv m (BFin nz sz ez pz))); auto; lia.
Qed.

Lemma bf_lt_le_trans x y z : bf_ltb x y = true -> bf_leb y z = true -> bf_ltb x z = true.
Proof.
  unfold bf_leb, bf_ltb.
  destruct x as [nx px|nx sx ex px], y as [ny py|ny sy ey py], z as [nz pz|nz sz ez pz];
    try (simpl; destruct nx; try destruct ny; try destruct nz; simpl; congruence).
  set (m := min3 ex ey ez).
  rewrite (bf_cmp_fin m (BFin nx sx ex px) (BFin ny sy ey py)) by (simpl; auto; unfold m, min3; lia).
  rewrite (bf_cmp_fin m (BFin ny sy ey py) (BFin nz sz ez pz)) by (simpl; auto; unfold m, min3; lia).
  rewrite (bf_cmp_fin m (BFin nx sx ex px) (BFin nz sz ez pz)) by (simpl; auto; unfold m, min3; lia).
  destruct (Z.compare_spec (zv m (BFin nx sx ex px)) (zv m (BFin ny sy ey py))); try discriminate;
  destruct (Z.compare_spec (zv m (BFin ny sy ey py)) (zv m (BFin nz sz ez pz))); try discriminate;
  destruct (Z.compare_spec (zv m (BFin nx sx ex px)) (zv m (BFin nz sz ez pz))); auto; lia.
Qed.

Lemma bf_le_trans x y z : bf_leb x y = true -> bf_leb y z = true -> bf_leb x z = true.
Proof.
  unfold bf_leb.
  destruct x as [nx px|nx sx ex px], y as [ny py|ny sy ey py], z as [nz pz|nz sz ez pz];
    try (simpl; destruct nx; try destruct ny; try destruct nz; simpl; congruence).
  set (m := min3 ex ey ez).
  rewrite (bf_cmp_fin m (BFin nx sx ex px) (BFin ny sy ey py)) by (simpl; auto; unfold m, min3; lia).
  rewrite (bf_cmp_fin m (BFin ny sy ey py) (BFin nz sz ez pz)) by (simpl; auto; unfold m, min3; lia).
  rewrite (bf_cmp_fin m (BFin nx sx ex px) (BFin nz sz ez pz)) by (simpl; auto; unfold m, min3; lia).
  destruct (Z.compare_spec (zv m (BFin nx sx ex px)) (zv m (BFin ny sy ey py))); try discriminate;
  destruct (Z.compare_spec (zv m (BFin ny sy ey py)) (zv m (BFin nz sz ez pz))); try discriminate;
  destruct (Z.compare_spec (zv m (BFin nx sx ex px)) (zv m (BFin nz sz ez pz))); auto; lia.
Qed.

(* less-than, greater-than and Cmp-equality form a trichotomy on all numbers *)
Theorem bf_cmp_trichotomy x y :
  (bf_ltb x y = true /\ bf_ltb y x = false /\ bf_numeq x y = false) \/
  (bf_ltb x y = false /\ bf_ltb y x = true /\ bf_numeq x y = false) \/
  (bf_ltb x y = false /\ bf_ltb y x = false /\ bf_numeq x y = true).
Proof.
  unfold bf_ltb, bf_numeq. rewrite (bf_cmp_antisym x y). destruct (bf_cmp x y); simpl; auto.
Qed.

Lemma bf_ltb_irrefl x : bf_ltb x x = false.
Proof. unfold bf_ltb. rewrite bf_cmp_refl. reflexivity. Qed.
Lemma bf_leb_refl x : bf_leb x x = true.
Proof. unfold bf_leb. rewrite bf_cmp_refl. reflexivity. Qed.
Lemma bf_ltb_leb x y : bf_ltb x y = true -> bf_leb x y = true.
Proof. unfold bf_ltb, bf_leb. destruct (bf_cmp x y); congruence. Qed.
Lemma bf_ltb_not_gt x y : bf_ltb x y = true -> bf_ltb y x = false.
Proof. unfold bf_ltb. rewrite (bf_cmp_antisym x y). destruct (bf_cmp x y); simpl; congruence. Qed.
Lemma bf_leb_pinf x p : bf_leb x (BInf false p) = true.
Proof. destruct x as [[|] ?|? ? ? ?]; reflexivity. Qed.
Lemma bf_leb_ninf x p : bf_leb (BInf true p) x = true.
Proof. destruct x as [[|] ?|? ? ? ?]; reflexivity. Qed.
