(* StdlibProofs.v — the call protocol instantiated at the standard library's specifications
   (Gen/SpecTable.v, regenerated from the source on every run): C11, C12. *)
From Coq Require Import Lia String.
From Cty Require Import Base Ty BigFloat Value Hash Ops Refine Func Admits K11 FuncProofs.
From Cty.Gen Require Import SpecTable.
Open Scope Z_scope.

(* whatever a standard function's Type and Impl callbacks do -- return, fail or panic -- Call never
   lets a panic escape (it is reported as an error) *)
Theorem stdlib_call_no_go_panic e tr ir args : fst (call (mk_std e tr ir) args) <> Panic.
Proof. apply call_no_panic. Qed.

(* a standard function's implementation only ever sees arguments that meet every declared
   constraint of its parameters, and only after its type callback accepted them *)
Theorem stdlib_impl_contract e tr ir args r evs : call (mk_std e tr ir) args = (r, evs) ->
  forall a t ri, In (EvImpl a t ri) evs ->
  evs = [EvType a (Ok t); EvImpl a t ri] /\ all_meet (mk_std e tr ir) 0 a = true.
Proof. apply call_contract. Qed.

(* when the protocol answers without the implementation (an unknown argument where the parameter
   does not accept unknowns, or a dynamically-typed one), the answer is the unknown value of the
   predicted type carrying the arguments' marks, with the function's result refinement applied *)
Theorem stdlib_short_circuit e tr ir args v evs : call (mk_std e tr ir) args = (Ok v, evs) ->
  (forall a t ri, ~ In (EvImpl a t ri) evs) ->
  exists expected reg,
    Ok v = apply_refine (mk_std e tr ir) reg (Ok (with_marks (v_unknown expected) (collect_marks (mk_std e tr ir) 0 args))).
Proof. apply call_short_circuit. Qed.

(* ... and an unrefined unknown of a type admits every unmarked value whose type conforms to it:
   the short-circuit answer cannot exclude what evaluation would have returned *)
Lemma unknown_admits t c : is_marked c = false -> conforms (vty c) t = true -> admits_b (v_unknown t) c = true.
Proof.
  intros M C. unfold admits_b, v_unknown. cbn [vty vp psize].
  destruct c as [tc pc]. cbn [vty vp] in *. unfold is_marked in M. cbn [vp] in M.
  replace (1 + psize pc + 2)%nat with (S (psize pc + 2)) by lia. cbn [admits_p].
  destruct pc; try discriminate; rewrite C; reflexivity.
Qed.

(* the table itself: every generated entry is found under its name *)
Lemma spec_table_nonempty : (0 < length spec_table)%nat.
Proof. vm_compute. lia. Qed.
