(* JsonRoundTrip.v — C15: every known, unmarked value built from booleans, strings, nulls, lists, tuples,
   maps and objects, nested to any depth, is encoded by the JSON encoder and decoded back to exactly
   itself.  (Numbers and sets are decided per input: their round trip depends on the number text, which
   the refuted lemma in JsonProofs shows is not exact in general, and on Equals between set members.) *)
From Coq Require Import Lia.
From Cty Require Import Base Ty BigFloat Value Hash Ops Refine Wf Json BaseProofs TyProofs WfProofs FuncProofs JsonProofs MsgpackProofs DecodeProofs.
Open Scope Z_scope.

Fixpoint pdepth (p : payload) : nat :=
  match p with
  | PSeq l => S (fold_right (fun x n => Nat.max (pdepth x) n) 0%nat l)
  | PMap m => S ((fix go (l : list (str * payload)) : nat :=
                    match l with [] => 0%nat | kv :: l' => Nat.max (pdepth (snd kv)) (go l') end) m)
  | _ => 1%nat
  end.

Section RoundTrip.
  Variable norm : str -> str.
  Variable unk : bool.   (* whether unrefined unknown values are part of the fragment (MessagePack only) *)

  (* the values covered: payload p is a value of type t *)
  Inductive RT : ty -> payload -> Prop :=
  | RT_unknown t : unk = true -> is_dyn t = false -> RT t (PUnk RNone)
  | RT_null t : RT t PNull
  | RT_bool b : RT TBool (PBool b)
  | RT_str s : norm s = s -> RT TStr (PStr s)
  | RT_list e l : wf_ty e = true -> Forall (RT e) l -> RT (TList e) (PSeq l)
  | RT_tuple es l : Forall2 RT es l -> RT (TTuple es) (PSeq l)
  | RT_map e m : wf_ty e = true -> sorted_keys (keys m) = true -> (forall k, In k (keys m) -> norm k = k) ->
                 Forall (fun kv => RT e (snd kv)) m -> RT (TMap e) (PMap m)
  | RT_obj attrs m : sorted_keys (keys attrs) = true -> (forall k, In k (keys attrs) -> norm k = k) ->
                     Forall2 (fun kt kv => fst kv = fst kt /\ RT (snd kt) (snd kv)) attrs m -> RT (TObj attrs []) (PMap m).

  Lemma unify_all_same e n : wf_ty e = true -> unify_elem_ty e (repeat e n) = Some e.
  Proof.
    intros W. induction n as [|n IH]; cbn [repeat unify_elem_ty]; [reflexivity|].
    destruct (is_dyn e) eqn:D; [exact IH|]. rewrite (ty_equals_refl e W). cbn [negb andb]. exact IH.
  Qed.
  Lemma unify_dyn_same e n : wf_ty e = true -> unify_elem_ty TDyn (repeat e (S n)) = Some e.
  Proof. intros W. cbn [repeat unify_elem_ty is_dyn]. apply unify_all_same. exact W. Qed.

  Lemma map_vty_V (e : ty) (l : list payload) : map vty (map (fun x => V e x) l) = repeat e (length l).
  Proof. induction l as [|x l IH]; cbn; [reflexivity|]. f_equal. exact IH. Qed.
  Lemma map_vp_V (e : ty) (l : list payload) : map vp (map (fun x => V e x) l) = l.
  Proof. induction l as [|x l IH]; cbn; [reflexivity|]. f_equal. exact IH. Qed.

  Lemma map_vty_combine es : forall l, length l = length es ->
    map vty (map (fun tx : ty * payload => V (fst tx) (snd tx)) (combine es l)) = es.
  Proof. induction es as [|te es IHes]; intros [|x l] L; cbn in *; try discriminate; [reflexivity|]. f_equal. apply IHes. lia. Qed.
  Lemma map_vp_combine es : forall l, length l = length es ->
    map vp (map (fun tx : ty * payload => V (fst tx) (snd tx)) (combine es l)) = l.
  Proof. induction es as [|te es IHes]; intros [|x l] L; cbn in *; try discriminate; [reflexivity|]. f_equal. apply IHes. lia. Qed.

  Lemma map_val_nonempty kvs : kvs <> [] ->
    map_val norm kvs = match unify_elem_ty TDyn (map (fun kv => vty (snd kv)) kvs) with
                       | None => Panic
                       | Some et => Ok (V (TMap et) (PMap (fold_left (fun acc kv => kv_insert (norm (fst kv)) (vp (snd kv)) acc) kvs [])))
                       end.
  Proof. destruct kvs; [congruence|reflexivity]. Qed.

  Lemma map_val_rebuild e m : wf_ty e = true -> m <> [] -> sorted_keys (keys m) = true -> (forall k, In k (keys m) -> norm k = k) ->
    let kvs := map (fun kv : str * payload => (fst kv, V e (snd kv))) m in
    can_coll (map snd kvs) = true /\ map_val norm kvs = Ok (V (TMap e) (PMap m)).
  Proof.
    intros W Ne S N kvs.
    assert (T1 : forall l : list (str * payload),
               map vty (map snd (map (fun kv : str * payload => (fst kv, V e (snd kv))) l)) = repeat e (length l)).
    { induction l as [|x l IHl]; cbn; [reflexivity|]. f_equal. exact IHl. }
    assert (T2 : forall l : list (str * payload),
               map (fun kv0 : str * value => vty (snd kv0)) (map (fun kv : str * payload => (fst kv, V e (snd kv))) l) = repeat e (length l)).
    { induction l as [|x l IHl]; cbn; [reflexivity|]. f_equal. exact IHl. }
    assert (Fd : forall (l : list (str * payload)) acc,
               fold_left (fun acc kv => kv_insert (norm (fst kv)) (vp (snd kv)) acc) (map (fun kv : str * payload => (fst kv, V e (snd kv))) l) acc =
               fold_left (fun acc kv => kv_insert (norm (fst kv)) (snd kv) acc) l acc).
    { induction l as [|x l IHl]; cbn; intros acc; [reflexivity|]. apply IHl. }
    destruct m as [|kv m]; [congruence|].
    split.
    - unfold can_coll, kvs. rewrite T1. cbn [length]. rewrite (unify_dyn_same e (length m) W). reflexivity.
    - rewrite map_val_nonempty by (unfold kvs; discriminate). unfold kvs.
      rewrite T2. cbn [length]. rewrite (unify_dyn_same e (length m) W).
      rewrite Fd. rewrite (fold_kv_insert_sorted norm (kv :: m) []); [reflexivity|exact S|].
      intros kv0 Hin. apply N. unfold keys. apply in_map. exact Hin.
  Qed.

  (* ---- objects ---- *)
  Definition pair_val (akv : (str * ty) * (str * payload)) : str * value := (fst (fst akv), V (snd (fst akv)) (snd (snd akv))).

  Lemma F2_keys (P : ty -> payload -> Prop) attrs m :
    Forall2 (fun (kt : str * ty) (kv : str * payload) => fst kv = fst kt /\ P (snd kt) (snd kv)) attrs m -> keys m = keys attrs.
  Proof. induction 1 as [|kt kv a' m' [E _] _ IHf]; cbn; [reflexivity|]. f_equal; assumption. Qed.

  Lemma pair_tys (P : ty -> payload -> Prop) attrs m :
    Forall2 (fun (kt : str * ty) (kv : str * payload) => fst kv = fst kt /\ P (snd kt) (snd kv)) attrs m ->
    map (fun kv : str * value => (fst kv, vty (snd kv))) (map pair_val (combine attrs m)) = attrs /\
    map (fun kv : str * value => (fst kv, vp (snd kv))) (map pair_val (combine attrs m)) = m.
  Proof.
    induction 1 as [|[k ta] [k' x] a' m' [E _] _ [IH1 IH2]]; cbn; [split; reflexivity|].
    cbn in E. subst k'. split; f_equal; assumption.
  Qed.

  Lemma rebuild_all (kvs : list (str * value)) : forall (a' : list (str * ty)) (k' : list (str * value)),
    keys k' = keys a' -> (forall kv, In kv k' -> lookup (fst kv) kvs = Some (snd kv)) ->
    map (fun kt : str * ty => (fst kt, match lookup (fst kt) kvs with Some v => v | None => v_null (snd kt) end)) a' = k'.
  Proof.
    induction a' as [|kt a' IHa]; intros [|kv k'] K L; cbn in *; try discriminate; [reflexivity|].
    injection K as K0 K. f_equal.
    - rewrite <- K0. rewrite (L kv (or_introl eq_refl)). destruct kv; reflexivity.
    - apply IHa; [exact K|]. intros kv0 Hin. apply L. right. exact Hin.
  Qed.

  Lemma fold_conv {A B} (g : A -> B) (nm : str -> str) (l : list (str * A)) : forall acc,
    fold_left (fun acc kv => kv_insert (nm (fst kv)) (g (snd kv)) acc) l acc =
    fold_left (fun acc kv => kv_insert (nm (fst kv)) (snd kv) acc) (map (fun kv => (fst kv, g (snd kv))) l) acc.
  Proof. induction l as [|x l IHl]; cbn; intros acc; [reflexivity|]. apply IHl. Qed.

  Definition M f v t := json_marshal_at f v t.
  Definition U f j t := json_unmarshal_at norm f j t.

  Theorem roundtrip_at : unk = false -> forall n t p, RT t p -> (pdepth p <= n)%nat ->
    forall f f', (n < f)%nat -> (n < f')%nat ->
    exists j, json_marshal_at f (V t p) t = Ok j /\ json_unmarshal_at norm f' j t = Ok (V t p) /\ (pdepth p <= jv_size j)%nat.
  Proof.
    intros Hu. induction n as [|n IH]; intros t p R D f f' Hf Hf'.
    { destruct p; cbn [pdepth] in D; lia. }
    destruct f as [|f]; [lia|]. destruct f' as [|f']; [lia|].
    assert (Hf0 : (n < f)%nat) by lia. assert (Hf0' : (n < f')%nat) by lia.
    cbn [json_marshal_at json_unmarshal_at]. unfold json_marshal_step, json_unmarshal_step.
    inversion R as [t0 Hk Hd|t0|b|s Hs|e l We Fl|es l F2|e m We Sm Nm Fm|attrs m Sa Na F2]; subst; cbn [vty vp is_marked is_known is_null top_payload negb].
    - congruence.
    - (* null *)
      exists JNull. split; [|split; [reflexivity|cbn; lia]]. destruct (is_dyn t); reflexivity.
    - exists (JBool b). split; [|split]; [reflexivity|reflexivity|cbn; lia].
    - exists (JStr s). split; [reflexivity|split; [|cbn; lia]]. cbn [unmarshal_primitive]. rewrite Hs. reflexivity.
    - (* list *)
      cbn [is_dyn andb].
      assert (G : exists js,
        (fix go (l0 : list payload) : res (list jv) :=
           match l0 with
           | [] => Ok []
           | x :: l' => do j <- json_marshal_at f (V e x) e; do r <- go l'; Ok (j :: r)
           end) l = Ok js /\
        (fix go (l0 : list jv) : res (list value) :=
           match l0 with
           | [] => Ok []
           | x :: l' => do v <- json_unmarshal_at norm f' x e; do r <- go l'; Ok (v :: r)
           end) js = Ok (map (fun x => V e x) l) /\
        (fold_right (fun x k => Nat.max (pdepth x) k) 0 l <= fold_right (fun x k => jv_size x + k) 0 js)%nat).
      { cbn [pdepth] in D. assert (Dl : (fold_right (fun x k => Nat.max (pdepth x) k) 0 l <= n)%nat) by lia. clear D R.
        induction Fl as [|x l Rx Fl IHl]; [exists []; split; [|split]; [reflexivity|reflexivity|cbn; lia]|].
        cbn [fold_right] in Dl.
        assert (Dx : (pdepth x <= n)%nat) by lia.
        assert (Dl' : (fold_right (fun x k => Nat.max (pdepth x) k) 0 l <= n)%nat) by lia.
        destruct (IH e x Rx Dx f f' Hf0 Hf0') as (j & Mj & Uj & Sj).
        destruct (IHl Dl') as (js & Mjs & Ujs & Sjs).
        exists (j :: js). split; [|split].
        - rewrite Mj. cbn [bind]. rewrite Mjs. reflexivity.
        - rewrite Uj. cbn [bind]. rewrite Ujs. reflexivity.
        - cbn [fold_right]. lia. }
      destruct G as (js & Mjs & Ujs & Sjs). exists (JArr js). split; [rewrite Mjs; reflexivity|].
      split; [|cbn [pdepth jv_size]; lia].
      rewrite Ujs. cbn [bind].
      destruct l as [|x l]; [reflexivity|]. cbn [map].
      change ({| vty := e; vp := x |} :: map (fun x0 : payload => {| vty := e; vp := x0 |}) l)
        with (map (fun x0 : payload => {| vty := e; vp := x0 |}) (x :: l)).
      unfold can_coll, list_val. rewrite map_vty_V, map_vp_V. cbn [length map].
      rewrite (unify_dyn_same e (length l) We). reflexivity.
    - (* tuple *)
      cbn [is_dyn andb].
      assert (G : exists js,
        (fix go (ts tvs : list ty) (l0 : list payload) {struct ts} : res (list jv) :=
           match ts, tvs, l0 with
           | te :: ts', tv :: tvs', x :: l' => do j <- json_marshal_at f (V tv x) te; do r <- go ts' tvs' l'; Ok (j :: r)
           | _, _, [] => Ok []
           | _, _, _ => Panic
           end) es es l = Ok js /\
        (fix go (ts : list ty) (l0 : list jv) {struct ts} : res (list value) :=
           match l0, ts with
           | [], _ => Ok []
           | _ :: _, [] => Err OtherError
           | x :: l', te :: ts' => do v <- json_unmarshal_at norm f' x te; do r <- go ts' l'; Ok (v :: r)
           end) es js = Ok (map (fun tx => V (fst tx) (snd tx)) (combine es l)) /\
        (fold_right (fun x k => Nat.max (pdepth x) k) 0 l <= fold_right (fun x k => jv_size x + k) 0 js)%nat).
      { cbn [pdepth] in D. assert (Dl : (fold_right (fun x k => Nat.max (pdepth x) k) 0 l <= n)%nat) by lia. clear D R.
        induction F2 as [|te x es l Rx F2 IHl]; [exists []; split; [|split]; [reflexivity|reflexivity|cbn; lia]|].
        cbn [fold_right] in Dl.
        assert (Dx : (pdepth x <= n)%nat) by lia.
        assert (Dl' : (fold_right (fun x k => Nat.max (pdepth x) k) 0 l <= n)%nat) by lia.
        destruct (IH te x Rx Dx f f' Hf0 Hf0') as (j & Mj & Uj & Sj).
        destruct (IHl Dl') as (js & Mjs & Ujs & Sjs).
        exists (j :: js). split; [|split].
        - rewrite Mj. cbn [bind]. rewrite Mjs. reflexivity.
        - rewrite Uj. cbn [bind]. rewrite Ujs. reflexivity.
        - cbn [fold_right]. lia. }
      destruct G as (js & Mjs & Ujs & Sjs). exists (JArr js). split; [rewrite Mjs; reflexivity|].
      split; [|cbn [pdepth jv_size]; lia].
      rewrite Ujs. cbn [bind].
      assert (L : length l = length es) by (symmetry; eapply Forall2_length; eauto).
      rewrite map_length, combine_length, L, Nat.min_id, Nat.eqb_refl. cbn [negb].
      unfold tuple_val. rewrite (map_vty_combine es l L), (map_vp_combine es l L). reflexivity.
    - (* map *)
      cbn [is_dyn andb].
      assert (G : exists js,
        (fix go (l0 : list (str * payload)) : res (list (str * jv)) :=
           match l0 with
           | [] => Ok []
           | kv :: l' => do j <- json_marshal_at f (V e (snd kv)) e; do r <- go l'; Ok ((fst kv, j) :: r)
           end) m = Ok js /\
        (fix go (l0 : list (str * jv)) : res (list (str * value)) :=
           match l0 with
           | [] => Ok []
           | kv :: l' => do v <- json_unmarshal_at norm f' (snd kv) e; do r <- go l'; Ok ((fst kv, v) :: r)
           end) js = Ok (map (fun kv => (fst kv, V e (snd kv))) m) /\
        ((fix go (l : list (str * payload)) : nat :=
            match l with [] => 0%nat | kv :: l' => Nat.max (pdepth (snd kv)) (go l') end) m <=
         (fix go (l : list (str * jv)) : nat := match l with [] => 0 | kv :: l' => jv_size (snd kv) + go l' end) js)%nat).
      { cbn [pdepth] in D.
        assert (Dl : ((fix go (l : list (str * payload)) : nat :=
                         match l with [] => 0%nat | kv :: l' => Nat.max (pdepth (snd kv)) (go l') end) m <= n)%nat) by lia.
        clear D R Sm Nm.
        induction Fm as [|kv m Rx Fm IHm]; [exists []; split; [|split]; [reflexivity|reflexivity|lia]|].
        assert (Dx : (pdepth (snd kv) <= n)%nat) by lia.
        assert (Dl' : ((fix go (l : list (str * payload)) : nat :=
                         match l with [] => 0%nat | kv :: l' => Nat.max (pdepth (snd kv)) (go l') end) m <= n)%nat) by lia.
        destruct (IH e (snd kv) Rx Dx f f' Hf0 Hf0') as (j & Mj & Uj & Sj).
        destruct (IHm Dl') as (js & Mjs & Ujs & Sjs).
        exists ((fst kv, j) :: js). split; [|split].
        - rewrite Mj. cbn [bind]. rewrite Mjs. reflexivity.
        - cbn [fst snd]. rewrite Uj. cbn [bind]. rewrite Ujs. reflexivity.
        - cbn [snd]. lia. }
      destruct G as (js & Mjs & Ujs & Sjs). exists (JObj js). split; [rewrite Mjs; reflexivity|].
      split; [|cbn [pdepth jv_size]; lia].
      rewrite Ujs. cbn [bind].
      destruct m as [|kv m]; [reflexivity|].
      destruct (map_val_rebuild e (kv :: m) We ltac:(discriminate) Sm Nm) as [C V0].
      cbv zeta in C, V0.
      remember (map (fun kv0 : str * payload => (fst kv0, {| vty := e; vp := snd kv0 |})) (kv :: m)) as K eqn:EK.
      destruct K as [|k0 K]; [discriminate EK|]. rewrite C. exact V0.
    - (* object *)
      cbn [is_dyn andb].
      pose proof (F2_keys RT attrs m F2) as Km.
      assert (HA : forall kt, In kt attrs -> lookup (fst kt) attrs = Some (snd kt)).
      { intros kt Hin. apply lookup_sorted_self; [apply sorted_NoDup; exact Sa|exact Hin]. }
      assert (HM : forall kv, In kv m -> lookup (fst kv) m = Some (snd kv)).
      { intros kv Hin. apply lookup_sorted_self; [|exact Hin]. change (map fst m) with (keys m). rewrite Km. apply sorted_NoDup; exact Sa. }
      assert (G : forall a' m', Forall2 (fun (kt : str * ty) (kv : str * payload) => fst kv = fst kt /\ RT (snd kt) (snd kv)) a' m' ->
                 (forall kt, In kt a' -> In kt attrs) -> (forall kv, In kv m' -> In kv m) ->
                 (forall kv, In kv m' -> (pdepth (snd kv) <= n)%nat) ->
        exists js,
        (fix go (l0 : list (str * ty)) : res (list (str * jv)) :=
           match l0 with
           | [] => Ok []
           | kt :: l' =>
               match lookup (fst kt) attrs, lookup (fst kt) m with
               | Some tv, Some x => do j <- json_marshal_at f (V tv x) (snd kt); do r <- go l'; Ok ((fst kt, j) :: r)
               | _, _ => Panic
               end
           end) a' = Ok js /\
        (fix go (l0 : list (str * jv)) : res (list (str * value)) :=
           match l0 with
           | [] => Ok []
           | kv :: l' =>
               match lookup (fst kv) attrs with
               | None => Err OtherError
               | Some ta => do v <- json_unmarshal_at norm f' (snd kv) ta; do r <- go l'; Ok ((fst kv, v) :: r)
               end
           end) js = Ok (map pair_val (combine a' m')) /\
        ((fix go (l : list (str * payload)) : nat :=
            match l with [] => 0%nat | kv :: l' => Nat.max (pdepth (snd kv)) (go l') end) m' <=
         (fix go (l : list (str * jv)) : nat := match l with [] => 0 | kv :: l' => jv_size (snd kv) + go l' end) js)%nat).
      { induction 1 as [|kt kv a' m' [E Rx] F2' IHf]; intros Ia Im Dm; [exists []; split; [|split]; [reflexivity|reflexivity|lia]|].
        assert (La : lookup (fst kt) attrs = Some (snd kt)) by (apply HA; apply Ia; left; reflexivity).
        assert (Lm : lookup (fst kt) m = Some (snd kv)) by (rewrite <- E; apply HM; apply Im; left; reflexivity).
        assert (Dx : (pdepth (snd kv) <= n)%nat) by (apply Dm; left; reflexivity).
        destruct (IH (snd kt) (snd kv) Rx Dx f f' Hf0 Hf0') as (j & Mj & Uj & Sj).
        destruct (IHf (fun kt0 H => Ia kt0 (or_intror H)) (fun kv0 H => Im kv0 (or_intror H)) (fun kv0 H => Dm kv0 (or_intror H))) as (js & Mjs & Ujs & Sjs).
        exists ((fst kt, j) :: js). split; [|split].
        - rewrite La, Lm, Mj. cbn [bind]. rewrite Mjs. reflexivity.
        - cbn [fst snd]. rewrite La, Uj. cbn [bind]. rewrite Ujs. cbn [combine map pair_val fst snd]. reflexivity.
        - cbn [snd]. lia. }
      assert (Dm : forall kv, In kv m -> (pdepth (snd kv) <= n)%nat).
      { cbn [pdepth] in D. clear -D. induction m as [|x m IHm]; intros kv Hin; [contradiction|]. destruct Hin as [<-|Hin]; [lia|]. apply IHm; [lia|exact Hin]. }
      destruct (G attrs m F2 (fun kt H => H) (fun kv H => H) Dm) as (js & Mjs & Ujs & Sjs).
      exists (JObj js). split; [rewrite Mjs; reflexivity|].
      split; [|cbn [pdepth jv_size]; lia].
      rewrite Ujs. cbn [bind].
      set (kvs := map pair_val (combine attrs m)).
      destruct (pair_tys RT attrs m F2) as [PT PV]. fold kvs in PT, PV.
      assert (Kk : keys kvs = keys attrs).
      { unfold keys. transitivity (map fst (map (fun kv : str * value => (fst kv, vty (snd kv))) kvs)); [rewrite map_map; reflexivity|rewrite PT; reflexivity]. }
      assert (Gv : fold_left (fun acc kv => kv_insert (fst kv) (snd kv) acc) kvs [] = kvs).
      { rewrite (fold_kv_insert_sorted (fun s => s) kvs []); [reflexivity|cbn [app]; rewrite Kk; exact Sa|reflexivity]. }
      rewrite Gv.
      rewrite (rebuild_all kvs attrs kvs Kk).
      2:{ intros kv Hin. apply lookup_sorted_self; [|exact Hin]. change (map fst kvs) with (keys kvs). rewrite Kk. apply sorted_NoDup; exact Sa. }
      unfold object_val.
      rewrite (fold_conv vty norm kvs []), (fold_conv vp norm kvs []), PT, PV.
      rewrite (fold_kv_insert_sorted norm attrs []); [|exact Sa|intros kv Hin; apply Na; unfold keys; apply in_map; exact Hin].
      rewrite (fold_kv_insert_sorted norm m []); [reflexivity|cbn [app]; rewrite Km; exact Sa|].
      intros kv Hin. apply Na. rewrite <- Km. unfold keys. apply in_map. exact Hin.
  Qed.
End RoundTrip.

Lemma fold_max_le_sum (l : list payload) (F : Forall (fun x => (pdepth x <= psize x)%nat) l) :
  (fold_right (fun x n => Nat.max (pdepth x) n) 0 l <= fold_right (fun x n => psize x + n) 0 l)%nat.
Proof. induction F as [|x l Hx _ IH]; cbn [fold_right]; lia. Qed.

Lemma pdepth_le_psize : forall p, (pdepth p <= psize p)%nat.
Proof.
  induction p using payload_ind2; cbn [pdepth psize]; try lia.
  - pose proof (fold_max_le_sum l H). lia.
  - apply le_n_S. induction H as [|kv m Hx _ IH]; [lia|]. lia.
Qed.

(* the public entry points, with the fuel they compute themselves *)
Theorem json_roundtrip norm t p : RT norm false t p ->
  exists j, json_marshal (V t p) t = Ok j /\ json_unmarshal norm j t = Ok (V t p).
Proof.
  intros R. unfold json_marshal, json_unmarshal. cbn [vp vty].
  pose proof (pdepth_le_psize p) as Dp.
  destruct (roundtrip_at norm false eq_refl (pdepth p) t p R (le_n _) (S (psize p) + ty_size t + ty_size t) (S (pdepth p)) ltac:(lia) ltac:(lia)) as (j & Mj & _ & Sj).
  destruct (roundtrip_at norm false eq_refl (pdepth p) t p R (le_n _) (S (psize p) + ty_size t + ty_size t) (S (jv_size j)) ltac:(lia) ltac:(lia)) as (j' & Mj' & Uj' & _).
  rewrite Mj in Mj'. injection Mj' as <-. exists j. split; assumption.
Qed.
