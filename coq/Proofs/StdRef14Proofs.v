(* StdRef14Proofs.v — laws of the reference semantics of the number and string functions (C14). *)
From Coq Require Import Lia.
From Cty Require Import Base Ty BigFloat Value Hash Ops Refine Walk Convert StdRef StdRef14 CmpProofs GoctyProofs BaseProofs.
Open Scope Z_scope.

(* ---------- truncation, floor and ceiling against exact comparison ---------- *)
Lemma zv_int_at m t : m <= 0 -> zv m (bf_of_int t) = t * 2 ^ (- m).
Proof.
  intros Hm. rewrite (zv_scale 0 m (bf_of_int t)); [|unfold bf_of_int; reflexivity|lia|unfold bf_of_int, fin_exp; lia].
  replace (0 - m) with (- m) by lia. f_equal.
  destruct (Z.lt_trichotomy t 0) as [H|[H|H]].
  - replace t with (- (- t)) by lia. rewrite zv_of_int_neg by lia. lia.
  - subst. reflexivity.
  - apply zv_of_int_pos. lia.
Qed.

Lemma shiftr_bounds sig k : 0 < k ->
  let q := Z.of_N (N.shiftr sig (Z.to_N k)) in q * 2 ^ k <= Z.of_N sig < (q + 1) * 2 ^ k.
Proof.
  intros Hk q. unfold q. rewrite N.shiftr_div_pow2. rewrite N2Z.inj_div, N2Z.inj_pow. rewrite Z2N.id by lia.
  assert (P : 0 < 2 ^ k) by (apply Z.pow_pos_nonneg; lia).
  pose proof (Z.mul_div_le (Z.of_N sig) (2 ^ k) P).
  pose proof (Z.mul_succ_div_gt (Z.of_N sig) (2 ^ k) P). lia.
Qed.

Lemma shiftl_exact_iff sig k : 0 < k ->
  (N.shiftl (N.shiftr sig (Z.to_N k)) (Z.to_N k) =? sig)%N = true <-> Z.of_N (N.shiftr sig (Z.to_N k)) * 2 ^ k = Z.of_N sig.
Proof.
  intros Hk. rewrite N.eqb_eq. split; intros H.
  - rewrite <- H at 2. symmetry. apply shiftl_Z. lia.
  - apply N2Z.inj. rewrite shiftl_Z by lia. exact H.
Qed.

(* comparison of an integer with a finite number, at a common scale m *)
Lemma cmp_int m x s : is_fin x = true -> m <= 0 -> m <= fin_exp x ->
  bf_cmp (bf_of_int s) x = (s * 2 ^ (- m) ?= zv m x) /\ bf_cmp x (bf_of_int s) = (zv m x ?= s * 2 ^ (- m)).
Proof.
  intros F M1 M2. split.
  - rewrite (bf_cmp_fin m) by (auto; unfold bf_of_int; cbn; auto; lia). rewrite zv_int_at by lia. reflexivity.
  - rewrite (bf_cmp_fin m) by (auto; unfold bf_of_int; cbn; auto; lia). rewrite zv_int_at by lia. reflexivity.
Qed.

(* the truncation t of a finite number x, at a scale where both are integers: t lies on x's side of
   zero within one unit, and coincides with x exactly when the truncation is exact *)
Lemma trunc_Z n sig e p t : trunc_z (BFin n sig e p) = Some t ->
  exists m, m <= 0 /\ m <= e /\ 0 < 2 ^ (- m) /\
    (n = false -> t * 2 ^ (- m) <= zv m (BFin n sig e p) < (t + 1) * 2 ^ (- m)) /\
    (n = true -> (t - 1) * 2 ^ (- m) < zv m (BFin n sig e p) <= t * 2 ^ (- m)) /\
    (trunc_exact (BFin n sig e p) = true <-> zv m (BFin n sig e p) = t * 2 ^ (- m)).
Proof.
  unfold trunc_z, trunc_exact, bf_int. intros H.
  destruct sig as [|ps].
  - injection H as <-. exists (Z.min 0 e). cbn [zv]. rewrite sc_zero. cbn [snd acc_eqb].
    assert (P : 0 < 2 ^ (- Z.min 0 e)) by (apply Z.pow_pos_nonneg; lia).
    rewrite Z.mul_0_r. split; [lia|]. split; [lia|]. split; [exact P|].
    split; [intros _; lia|]. split; [intros _; lia|]. split; intros _; [lia|reflexivity].
  - set (sg := N.pos ps) in *. assert (Sp : 0 < Z.of_N sg) by (unfold sg; lia).
    destruct (0 <=? e) eqn:E.
    + apply Z.leb_le in E. cbn [fst] in H. injection H as <-.
      assert (V : Z.of_N (N.shiftl sg (Z.to_N e)) = Z.of_N sg * 2 ^ e) by (apply shiftl_Z; lia).
      exists 0. cbn [zv snd acc_eqb]. unfold sc. rewrite Z.sub_0_r. change (2 ^ (- 0)) with 1.
      change (Z.pos (Pos.shiftl ps (Z.to_N e))) with (Z.of_N (N.shiftl sg (Z.to_N e))). rewrite V.
      assert (P : 0 < Z.of_N sg * 2 ^ e) by (apply Z.mul_pos_pos; [lia|apply Z.pow_pos_nonneg; lia]).
      repeat split; intros; subst; try lia; try reflexivity.
    + apply Z.leb_gt in E. cbn [fst] in H. injection H as <-.
      set (k := - e). assert (Hk : 0 < k) by (unfold k; lia).
      pose proof (shiftr_bounds sg k Hk) as B. cbn zeta in B.
      pose proof (shiftl_exact_iff sg k Hk) as X.
      set (q := Z.of_N (N.shiftr sg (Z.to_N k))) in *.
      exists e. fold k. cbn [zv snd]. unfold sc. rewrite Z.sub_diag. change (2 ^ 0) with 1.
      assert (P : 0 < 2 ^ k) by (apply Z.pow_pos_nonneg; lia).
      split; [lia|]. split; [lia|]. split; [exact P|].
      split; [intros ->; nia|]. split; [intros ->; nia|].
      destruct ((N.shiftl (N.shiftr sg (Z.to_N k)) (Z.to_N k) =? sg)%N) eqn:F.
      * cbn [acc_eqb]. split; [intros _|reflexivity]. assert (Q : q * 2 ^ k = Z.of_N sg) by (apply X; reflexivity). destruct n; nia.
      * assert (NQ : q * 2 ^ k <> Z.of_N sg) by (intros Q; apply X in Q; discriminate).
        destruct n; cbn [acc_eqb]; split; try discriminate; intros Q; exfalso; nia.
Qed.

(* floor: the greatest integer not above x;  ceiling: the least integer not below x;
   truncation: between zero and x, less than one unit from x *)
Ltac cmp_goal := match goal with |- context [Z.compare ?a ?b] => destruct (Z.compare_spec a b) end; try reflexivity; try nia.

Lemma between m x lo hi : is_fin x = true -> m <= 0 -> m <= fin_exp x ->
  lo * 2 ^ (- m) <= zv m x -> zv m x < hi * 2 ^ (- m) ->
  bf_leb (bf_of_int lo) x = true /\ bf_ltb x (bf_of_int hi) = true.
Proof.
  intros F M1 M2 H1 H2. unfold bf_leb, bf_ltb.
  destruct (cmp_int m x lo F M1 M2) as [-> _]. destruct (cmp_int m x hi F M1 M2) as [_ ->].
  split; cmp_goal.
Qed.
Lemma between' m x lo hi : is_fin x = true -> m <= 0 -> m <= fin_exp x ->
  lo * 2 ^ (- m) < zv m x -> zv m x <= hi * 2 ^ (- m) ->
  bf_ltb (bf_of_int lo) x = true /\ bf_leb x (bf_of_int hi) = true.
Proof.
  intros F M1 M2 H1 H2. unfold bf_leb, bf_ltb.
  destruct (cmp_int m x lo F M1 M2) as [-> _]. destruct (cmp_int m x hi F M1 M2) as [_ ->].
  split; cmp_goal.
Qed.

Theorem floor_spec n sig e p f : floor_z (BFin n sig e p) = Some f ->
  bf_leb (bf_of_int f) (BFin n sig e p) = true /\ bf_ltb (BFin n sig e p) (bf_of_int (f + 1)) = true.
Proof.
  unfold floor_z. destruct (trunc_z (BFin n sig e p)) as [t|] eqn:T; [|discriminate].
  destruct (trunc_Z n sig e p t T) as [m [M1 [M2 [KP [Pp [Pn Ex]]]]]].
  intros H. apply (between m); try reflexivity; try assumption;
  destruct (trunc_exact (BFin n sig e p)) eqn:TE; cbn [bf_neg_sign] in H;
  try (assert (Q : zv m (BFin n sig e p) = t * 2 ^ (- m)) by (apply Ex; reflexivity));
  try (assert (NQ : zv m (BFin n sig e p) <> t * 2 ^ (- m)) by (intros Q; apply Ex in Q; discriminate));
  destruct n; injection H as <-; try specialize (Pn eq_refl); try specialize (Pp eq_refl); nia.
Qed.

Theorem ceil_spec n sig e p c : ceil_z (BFin n sig e p) = Some c ->
  bf_ltb (bf_of_int (c - 1)) (BFin n sig e p) = true /\ bf_leb (BFin n sig e p) (bf_of_int c) = true.
Proof.
  unfold ceil_z. destruct (trunc_z (BFin n sig e p)) as [t|] eqn:T; [|discriminate].
  destruct (trunc_Z n sig e p t T) as [m [M1 [M2 [KP [Pp [Pn Ex]]]]]].
  intros H. apply (between' m); try reflexivity; try assumption;
  destruct (trunc_exact (BFin n sig e p)) eqn:TE; cbn [bf_neg_sign] in H;
  try (assert (Q : zv m (BFin n sig e p) = t * 2 ^ (- m)) by (apply Ex; reflexivity));
  try (assert (NQ : zv m (BFin n sig e p) <> t * 2 ^ (- m)) by (intros Q; apply Ex in Q; discriminate));
  destruct n; injection H as <-; try specialize (Pn eq_refl); try specialize (Pp eq_refl); nia.
Qed.

(* whole numbers are their own floor and ceiling; otherwise the two differ by one *)
Theorem floor_ceil_gap x f c : floor_z x = Some f -> ceil_z x = Some c ->
  (trunc_exact x = true -> f = c) /\ (trunc_exact x = false -> c = f + 1).
Proof.
  unfold floor_z, ceil_z. destruct (trunc_z x) as [t|]; [|discriminate].
  intros H1 H2. injection H1 as <-. injection H2 as <-.
  destruct (trunc_exact x); split; intros; try discriminate; try reflexivity. destruct (bf_neg_sign x); lia.
Qed.

(* ---------- strings ---------- *)
Lemma starts_with_app p r : starts_with p (p ++ r) = true.
Proof. induction p as [|a p IH]; [reflexivity|]. cbn [app starts_with]. rewrite N.eqb_refl. exact IH. Qed.
Lemma drop_app (p r : str) : drop (length p) (p ++ r) = r.
Proof. unfold drop. induction p; [reflexivity|]. cbn [length app skipn]. exact IHp. Qed.

(* trimprefix removes exactly a leading occurrence of the prefix, and only that *)
Theorem trimprefix_removes p r : ref_trimprefix_s (p ++ r) p = r.
Proof. unfold ref_trimprefix_s. rewrite starts_with_app, drop_app. reflexivity. Qed.
Theorem trimprefix_else s p : starts_with p s = false -> ref_trimprefix_s s p = s.
Proof. unfold ref_trimprefix_s. intros ->. reflexivity. Qed.
Theorem trimsuffix_removes p r : ref_trimsuffix_s (r ++ p) p = r.
Proof.
  unfold ref_trimsuffix_s. rewrite rev_app_distr. rewrite starts_with_app.
  rewrite <- (rev_length p). rewrite drop_app. apply rev_involutive.
Qed.

(* reverse by clusters is an involution; strlen counts clusters; substr never yields more clusters than asked *)
Theorem reverse_clusters_involution cl : ref_reverse_s (rev cl) = concat cl.
Proof. unfold ref_reverse_s. rewrite rev_involutive. reflexivity. Qed.
Theorem substr_whole cl : ref_substr cl 0 (-1) = concat cl.
Proof. unfold ref_substr. cbn. reflexivity. Qed.
Theorem substr_zero cl off : ref_substr cl off 0 = [].
Proof. unfold ref_substr. cbn [Z.ltb Z.compare Z.to_nat firstn]. reflexivity. Qed.

(* chomp: what is left does not end in a newline or carriage return *)
Theorem chomp_no_trailing_newline r :
  match chomp_rev r with c :: _ => ((c =? 10) || (c =? 13))%N = false | [] => True end.
Proof.
  induction r as [|c r IH]; [exact I|]. cbn [chomp_rev].
  destruct ((c =? 10) || (c =? 13))%N eqn:E; [exact IH|exact E].
Qed.
(* ... and only newlines and carriage returns were removed *)
Theorem chomp_removes_only_newlines r : exists t, r = t ++ chomp_rev r /\ forallb (fun c => ((c =? 10) || (c =? 13))%N) t = true.
Proof.
  induction r as [|c r [t [E F]]]; [exists []; split; reflexivity|]. cbn [chomp_rev].
  destruct ((c =? 10) || (c =? 13))%N eqn:C.
  - exists (c :: t). cbn [app forallb]. rewrite C, F. split; [f_equal; exact E|reflexivity].
  - exists []. split; reflexivity.
Qed.

(* split and join are inverse for a non-empty separator *)
Lemma split_at_nonempty fuel sep s cur : split_at fuel sep s cur <> [].
Proof.
  revert s cur. induction fuel as [|f IH]; intros s cur; cbn [split_at]; [discriminate|].
  destruct s as [|c s]; [discriminate|]. destruct (starts_with sep (c :: s)); [discriminate|apply IH].
Qed.

Lemma join_cons sep x l : l <> [] -> join_s sep (x :: l) = x ++ sep ++ join_s sep l.
Proof. destruct l; [congruence|reflexivity]. Qed.

Lemma starts_with_split p s : starts_with p s = true -> s = p ++ drop (length p) s.
Proof.
  revert s. induction p as [|a p IH]; intros s H; [reflexivity|].
  destruct s as [|b s]; [discriminate|]. cbn [starts_with] in H. apply andb_true_iff in H as [E H]. apply N.eqb_eq in E. subst.
  cbn [length app]. unfold drop. cbn [skipn]. f_equal. apply IH. exact H.
Qed.

Theorem join_split sep : sep <> [] -> forall fuel s cur, (length s < fuel)%nat ->
  join_s sep (split_at fuel sep s cur) = rev cur ++ s.
Proof.
  intros Hs. induction fuel as [|f IH]; intros s cur Hl; [lia|].
  cbn [split_at]. destruct s as [|c s]; [cbn; rewrite app_nil_r; reflexivity|].
  destruct (starts_with sep (c :: s)) eqn:E.
  - rewrite join_cons by apply split_at_nonempty.
    assert (L : (length (drop (length sep) (c :: s)) < f)%nat).
    { unfold drop. rewrite skipn_length. destruct sep; [congruence|]. cbn [length] in *. lia. }
    rewrite IH by exact L. cbn [rev app]. f_equal. symmetry. apply starts_with_split. exact E.
  - rewrite IH by (cbn [length] in Hl; lia). cbn [rev]. rewrite <- app_assoc. reflexivity.
Qed.
