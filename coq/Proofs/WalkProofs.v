(* WalkProofs.v — paths and path sets (C19). *)
From Coq Require Import Lia.
From Cty Require Import Base Ty BigFloat Value Hash Ops Refine SetAlg SetAlgProofs Walk BaseProofs EqProofs.
Open Scope Z_scope.

(* ---------- path sets: equivalent paths have equal hashes (coherence), unconditionally ---------- *)
Lemma step_equiv_skel a b : step_equiv a b = true -> step_skel a = step_skel b.
Proof.
  destruct a, b; simpl; try discriminate; auto.
  intros H. apply str_eqb_eq in H. congruence.
Qed.

Lemma path_equiv_skel : forall a b, path_equiv a b = true -> path_skel a = path_skel b.
Proof.
  unfold path_equiv, path_skel. induction a as [|x a IH]; intros [|y b]; simpl; try discriminate; auto.
  intros H. apply andb_true_iff in H as [H1 H2]. rewrite (step_equiv_skel _ _ H1), (IH _ H2). reflexivity.
Qed.

Theorem path_hash_coherent a b : path_equiv a b = true -> path_hash a = path_hash b.
Proof. intros H. unfold path_hash. rewrite (path_equiv_skel _ _ H). reflexivity. Qed.

(* Has answers abstract membership for every path set state satisfying the invariant
   (no assumption on the keys: coherence is all the membership theorem needs) *)
Theorem ps_has_spec s p : Inv path path_hash path_equiv s -> ps_has s p = gmem path path_equiv s p.
Proof. apply g_has_spec. exact path_hash_coherent. Qed.

(* ---------- paths whose index keys are known numbers or strings: an equivalence ---------- *)
Inductive kstep := KAttr (n : str) | KNum (x : bf) | KStr (s : str).
Definition kstep_eqv (a b : kstep) : bool :=
  match a, b with
  | KAttr x, KAttr y => str_eqb x y
  | KNum x, KNum y => raw_number_equal x y
  | KStr x, KStr y => str_eqb x y
  | _, _ => false
  end.
Definition step_of_k (k : kstep) : step :=
  match k with KAttr n => SAttr n | KNum x => SIndex (v_num x) | KStr s => SIndex (v_str s) end.
Definition path_of_k (p : list kstep) : path := map step_of_k p.

Lemma step_equiv_k a b : step_equiv (step_of_k a) (step_of_k b) = kstep_eqv a b.
Proof.
  destruct a, b; cbn [step_equiv step_of_k kstep_eqv]; try reflexivity.
  - unfold v_num. rewrite equals_numbers. cbn [known_and_true v_bool vp]. destruct (raw_number_equal x x0); reflexivity.
  - unfold v_str. rewrite equals_strings. cbn [known_and_true v_bool vp]. destruct (str_eqb s s0); reflexivity.
Qed.

Lemma path_equiv_k : forall a b, path_equiv (path_of_k a) (path_of_k b) = list_eqb kstep_eqv a b.
Proof.
  unfold path_equiv, path_of_k. induction a as [|x a IH]; intros [|y b]; simpl; auto.
  rewrite step_equiv_k, IH. reflexivity.
Qed.

Lemma kstep_eqv_refl a : kstep_eqv a a = true.
Proof. destruct a; simpl; auto using str_eqb_refl, raw_number_equal_refl. Qed.
Lemma kstep_eqv_sym a b : kstep_eqv a b = kstep_eqv b a.
Proof. destruct a, b; simpl; auto using str_eqb_sym, raw_number_equal_sym. Qed.
Lemma kstep_eqv_trans a b c : kstep_eqv a b = true -> kstep_eqv b c = true -> kstep_eqv a c = true.
Proof. destruct a, b, c; simpl; try discriminate; eauto using str_eqb_trans, raw_number_equal_trans. Qed.

Lemma list_eqb_refl {A} (e : A -> A -> bool) : (forall a, e a a = true) -> forall l, list_eqb e l l = true.
Proof. intros R. induction l; simpl; auto. rewrite R, IHl. reflexivity. Qed.
Lemma list_eqb_sym {A} (e : A -> A -> bool) : (forall a b, e a b = e b a) -> forall l1 l2, list_eqb e l1 l2 = list_eqb e l2 l1.
Proof. intros S. induction l1 as [|x l1 IH]; intros [|y l2]; simpl; auto. rewrite S, IH. reflexivity. Qed.
Lemma list_eqb_trans {A} (e : A -> A -> bool) : (forall a b c, e a b = true -> e b c = true -> e a c = true) ->
  forall l1 l2 l3, list_eqb e l1 l2 = true -> list_eqb e l2 l3 = true -> list_eqb e l1 l3 = true.
Proof.
  intros T. induction l1 as [|x l1 IH]; intros [|y l2] [|z l3]; simpl; try discriminate; auto.
  rewrite !andb_true_iff. intros [H1 H2] [H3 H4]. split; eauto.
Qed.

(* on such paths the path-set equivalence is an equivalence relation, so path sets built from them
   by Add are mathematical sets: membership, no duplicates, exactly the added paths, order-independent *)
Definition kp_eqv (a b : list kstep) : bool := path_equiv (path_of_k a) (path_of_k b).
Definition kp_hash (a : list kstep) : Z := path_hash (path_of_k a).

Lemma kp_eqv_refl a : kp_eqv a a = true.
Proof. unfold kp_eqv. rewrite path_equiv_k. apply list_eqb_refl. exact kstep_eqv_refl. Qed.
Lemma kp_eqv_sym a b : kp_eqv a b = kp_eqv b a.
Proof. unfold kp_eqv. rewrite !path_equiv_k. apply list_eqb_sym. exact kstep_eqv_sym. Qed.
Lemma kp_eqv_trans a b c : kp_eqv a b = true -> kp_eqv b c = true -> kp_eqv a c = true.
Proof. unfold kp_eqv. rewrite !path_equiv_k. apply list_eqb_trans. exact kstep_eqv_trans. Qed.
Lemma kp_coherent a b : kp_eqv a b = true -> kp_hash a = kp_hash b.
Proof. unfold kp_eqv, kp_hash. apply path_hash_coherent. Qed.

Theorem kpathset_is_set xs y :
  gmem _ kp_eqv (fold_left (g_add _ kp_hash kp_eqv) xs []) y = existsb (kp_eqv y) xs.
Proof. apply adds_mem; [exact kp_eqv_refl|exact kp_eqv_sym|exact kp_eqv_trans|exact kp_coherent]. Qed.

Theorem kpathset_no_duplicates xs :
  ForallOrdPairs (fun x y => kp_eqv x y = false) (gmembers _ (fold_left (g_add _ kp_hash kp_eqv) xs [])).
Proof. apply inv_no_two_equal with (h := kp_hash). apply adds_inv; [exact kp_eqv_refl|exact kp_eqv_sym|exact kp_coherent]. Qed.

(* ---------- path application ---------- *)
Lemma path_apply_nil norm v : path_apply norm [] v = Ok v.
Proof. reflexivity. Qed.

Lemma path_apply_app norm p q v : path_apply norm (p ++ q) v =
  match path_apply norm p v with Ok v' => path_apply norm q v' | r => r end.
Proof.
  revert v; induction p as [|s p IH]; intros v; simpl; auto.
  destruct (step_apply norm s v); auto.
Qed.

(* applying a path never yields a Go panic for list / map / object steps that name members *)
Lemma attr_step_known norm name attrs o m p : lookup name attrs = Some p -> norm name = name ->
  (exists x, lookup name m = Some x) ->
  exists r, attr_step_apply norm name (V (TObj attrs o) (PMap m)) = Ok r.
Proof.
  intros L N (x & Hx). unfold attr_step_apply. cbn [is_null top_payload vp vty]. rewrite L.
  unfold get_attr_v, unary_marks. cbn [is_marked vp]. unfold get_attr_u. cbn [is_dyn vty]. rewrite N, L. cbn [vp]. rewrite Hx. eauto.
Qed.

(* Walk reports the root first (parents before children starts at the root) *)
Lemma walk_root v l : walk v = Ok l -> exists rest, l = ([], v) :: rest.
Proof.
  unfold walk. cbn [walk_at]. destruct (is_null v || negb (is_known v)).
  - intros H. injection H as <-. eauto.
  - destruct (members_of (unmark_force v)) as [ms| | |]; cbn [bind]; try discriminate.
    match goal with |- bind ?X _ = _ -> _ => destruct X as [rest| | |] end; cbn [bind]; try discriminate.
    intros H. injection H as <-. eauto.
Qed.

(* null and unknown values are reported but not descended into *)
Lemma walk_leaf v : is_null v || negb (is_known v) = true -> walk v = Ok [([], v)].
Proof. intros H. unfold walk. cbn [walk_at]. rewrite H. reflexivity. Qed.
